#!/usr/bin/env python3
import json, sys, os, glob
import jsonschema
HERE = os.path.dirname(os.path.dirname(os.path.abspath(__file__)))
m = json.load(open(os.path.join(HERE, 'MANIFEST.json')))
jsonschema.validate(m, json.load(open('/root/.vp/MANIFEST.schema.json')))
print('MANIFEST valid:', len(m['checks']), 'checks')
es = json.load(open('/root/.vp/EVIDENCE.schema.json'))
for c in m['checks']:
    f = c['evidence_file']
    if not os.path.exists(f):
        print('  missing evidence', f); continue
    try:
        e = json.load(open(f)); jsonschema.validate(e, es)
        assert e['level'] == c['level_claimed']['category'], 'level mismatch'
        print('  ok', f, e['tier'], e['wall_s'], 'violations', e.get('violations'))
    except Exception as ex:
        print('  INVALID', f, str(ex)[:300])
