#!/usr/bin/env python3
"""Regenerates MANIFEST.json from checks_table.py (claimed checks) and properties.jsonl (everything else -> not_applicable)."""
import json, os, sys, subprocess
HERE = os.path.dirname(os.path.dirname(os.path.abspath(__file__)))
sys.path.insert(0, HERE)
import checks_table as T
props = [json.loads(l) for l in open(os.path.join(HERE, 'properties.jsonl'))]
hooks = subprocess.run(['git', '-C', '/repo', 'log', '--format=%H %s'], stdout=subprocess.PIPE, text=True).stdout.splitlines()
hook_commits = [l.split(' ', 1)[0] for l in hooks if l.split(' ', 1)[1].startswith('verif hooks:')]
checks = []
for p in props:
    pid = p['id']
    if pid not in T.PROPS:
        continue
    s = T.PROPS[pid]
    checks.append({
        'property_id': pid,
        'quick_cmd': './check %s --tier quick' % pid,
        'thorough_cmd': './check %s --tier thorough' % pid,
        'evidence_file': '/verif/evidence/%s.json' % pid,
        'replay_cmd_template': './check %s --replay {path}' % pid,
        'engine': s.get('engine', 'H' if s['level'] == 'model_checking' else 'S'),
        'level_claimed': {'category': s['level'], 'text': s.get('level_text', s['rule']), 'design_ref': 'DESIGN.md section 4, ' + pid},
        'level_note': '; '.join(s['assumptions']),
        'technique': s.get('technique', 'explicit-state model checking of the real implementation (BFS over replayed histories, lock-step reference model)' if s['level'] == 'model_checking'
                           else 'stateless model checking: preemption-bounded exhaustive schedule exploration of real threads under a controlled scheduler'),
    })
na = [{'property_id': p['id'], 'reason': T.NOT_APPLICABLE.get(p['id'], 'check not built yet (work in progress)')} for p in props if p['id'] not in T.PROPS]
m = {
    'version': 1,
    'setup_cmd': 'true',
    'hooks': {
        'guard': 'EVENTPP_VERIF',
        'enable': 'harnesses are compiled with -DEVENTPP_VERIF -fno-access-control -I$VERIF_REPO/include (see ./check build_binary); the harness TU defines eventpp_verif_point/_spin',
        'baseline_off_cmd': './baseline_off.sh',
        'source_commits': hook_commits,
        'add_only': True,
    },
    'engines': [
        {'name': 'H', 'path': 'fw/core.h', 'serves_properties': sorted(k for k, v in T.PROPS.items() if v['level'] == 'model_checking'), 'kind_free_text': 'explicit-state BFS over operation histories replayed on fresh real eventpp objects, lock-step reference model, bounded DFS over in-callback (PROG) choices'},
        {'name': 'S', 'path': 'fw/sched.h', 'serves_properties': sorted(k for k, v in T.PROPS.items() if v.get('engine', '') == 'S' or (v['level'] == 'exploration' and 'engine' not in v)), 'kind_free_text': 'preemption-bounded cooperative scheduler over real std::threads with injected Threading/QueueList/Map policies and EVENTPP_VERIF_POINT hooks; stateless DFS over schedules, plus a stateful mode (all interleavings of small configurations, pruned by visited global states); vector-clock happens-before race detection on the shared containers and on tracked payload objects; per-execution lock-order graph'},
    ],
    'checks': checks,
    'notes': 'All checks are bounded exhaustive explorations of the real eventpp code; see DESIGN.md. KNOWN_FINDINGS.txt lists repaired and open defects.',
    'not_applicable': na,
}
json.dump(m, open(os.path.join(HERE, 'MANIFEST.json'), 'w'), indent=1)
print('claimed', [c['property_id'] for c in checks], 'not claimed', [n['property_id'] for n in na])
