#!/usr/bin/env python3
"""Re-confirms every seeded change under /verif/seeded against the current /repo and the current checks and
rewrites seeded/README.md (which check catches which change).   tools/run_seeds.py [--tier quick] [--jobs N] [seed-id ...]"""
import sys, os, json, subprocess
from concurrent.futures import ThreadPoolExecutor
HERE = os.path.dirname(os.path.dirname(os.path.abspath(__file__)))
tier = 'quick'
jobs = 1
only = []
a = sys.argv[1:]
i = 0
while i < len(a):
    if a[i] == '--tier': tier = a[i + 1]; i += 2
    elif a[i] == '--jobs': jobs = int(a[i + 1]); i += 2
    else: only.append(a[i]); i += 1
root = os.path.join(HERE, 'seeded')
def one(sid):
    d = os.path.join(root, sid)
    meta = json.load(open(os.path.join(d, 'meta.json')))
    if only and sid not in only:
        return (sid, meta)
    pid = meta['breaks_property']
    also = [c for c in meta.get('checks', {}) if c != pid]
    cmd = [os.path.join(HERE, 'tools', 'verify_seed.py'), d, sid, pid, '--tier', tier, '--keep']
    for c in also:
        cmd += ['--also', c]
    env = dict(os.environ)
    if jobs > 1:
        env['VERIF_JOBS'] = str(max(4, 16 // jobs))
    p = subprocess.run(cmd, stdout=subprocess.PIPE, stderr=subprocess.STDOUT, text=True, env=env)
    try:
        res = json.loads(p.stdout[p.stdout.index('{'):])
    except Exception:
        print(sid, 'UNPARSEABLE', p.stdout[-400:], flush=True); return (sid, meta)
    print(sid, 'ok=%s' % res.get('ok'), res.get('error', '')[:200], {k: v['verdict'] for k, v in res.get('checks', {}).items()}, flush=True)
    meta2 = json.load(open(os.path.join(d, 'meta.json')))
    for k in ('needs_to_manifest', 'summary', 'history'):
        if k in meta and not meta2.get(k):
            meta2[k] = meta[k]
    json.dump(meta2, open(os.path.join(d, 'meta.json'), 'w'), indent=1)
    return (sid, meta2)


sids = [sid for sid in sorted(os.listdir(root)) if os.path.isdir(os.path.join(root, sid)) and os.path.exists(os.path.join(root, sid, 'meta.json'))]
with ThreadPoolExecutor(max_workers=jobs) as ex:
    rows = list(ex.map(one, sids))
with open(os.path.join(root, 'README.md'), 'w') as f:
    f.write('# Seeded property-breaking changes\n\nEach directory holds `patch.diff` (applies to /repo HEAD with `git apply` / `patch -p1`), `demo.cpp` (exit 0 on the unchanged tree, non-zero with the change), the author\'s `notes.md` and `meta.json` (what was confirmed and which checks were run). All were written by independent sub-agents that saw only the property text; every one was re-confirmed here on a scratch copy (suite passes with the change, demo passes without it and fails with it). None is ever applied to /repo.\n\n| seed | written against | needs to manifest | detected by (tier %s) | missed by |\n|---|---|---|---|---|\n' % tier)
    for sid, m in rows:
        det = [k for k, v in m.get('checks', {}).items() if v['verdict'] == 'DETECTED']
        mis = [k for k, v in m.get('checks', {}).items() if v['verdict'] != 'DETECTED']
        f.write('| %s | %s | %s | %s | %s |\n' % (sid, m['breaks_property'], m.get('needs_to_manifest', '(see notes.md)'), ', '.join(det) or '-', ', '.join(mis) or '-'))
    f.write('\nHistory of strengthenings prompted by these seeds is in DESIGN.md section 0.7.\n')
print('wrote seeded/README.md')
