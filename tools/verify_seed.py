#!/usr/bin/env python3
"""Independently confirm a seeded property-breaking change and run the checks against it.

   tools/verify_seed.py <dir with patch.diff + demo.cpp> <seed-id> <property> [--also <ID> ...] [--tier quick|thorough] [--keep]

Steps, all on a scratch copy of /repo (outside /repo and /verif, deleted afterwards):
  1. demo.cpp on the unchanged tree must exit 0
  2. the patch must apply; the repository's own suite must still pass (baseline_off.sh)
  3. demo.cpp on the changed tree must fail (non-zero exit / sanitizer / crash / timeout)
  4. ./check <property> (and --also IDs) against the changed tree: DETECTED or MISSED
With --keep the seed is stored as /verif/seeded/<seed-id>/ (patch.diff, demo.cpp, notes.md, meta.json)."""
import sys, os, subprocess, tempfile, shutil, json, time
HERE = os.path.dirname(os.path.dirname(os.path.abspath(__file__)))


def run(cmd, **kw):
    kw.setdefault('stdout', subprocess.PIPE); kw.setdefault('stderr', subprocess.STDOUT); kw.setdefault('text', True)
    try:
        p = subprocess.run(cmd, **kw)
        return p.returncode, p.stdout
    except subprocess.TimeoutExpired as e:
        return 124, 'TIMEOUT\n' + (e.stdout or '' if isinstance(e.stdout, str) else '')


def build_demo(src, inc, out, san):
    flags = ['g++', '-std=c++17', '-O1', '-g', '-pthread', '-I', inc, src, '-o', out]
    if san:
        flags[1:1] = ['-fsanitize=address,undefined', '-fno-sanitize-recover=all']
    return run(flags)


def main():
    a = sys.argv[1:]
    d, sid, pid = a[0], a[1], a[2]
    also, tier, keep = [], 'quick', False
    i = 3
    while i < len(a):
        if a[i] == '--also': also.append(a[i + 1]); i += 2
        elif a[i] == '--tier': tier = a[i + 1]; i += 2
        elif a[i] == '--keep': keep = True; i += 1
        else: i += 1
    patch, demo = os.path.join(d, 'patch.diff'), os.path.join(d, 'demo.cpp')
    res = {'seed': sid, 'property': pid, 'ok': False}
    scratch = tempfile.mkdtemp(prefix='verif-seed-', dir='/var/tmp')
    try:
        for sub in ('include', 'tests'):
            shutil.copytree(os.path.join('/repo', sub), os.path.join(scratch, sub), ignore=shutil.ignore_patterns('build'))
        inc = os.path.join(scratch, 'include')
        env_nosan = dict(os.environ, ASAN_OPTIONS='detect_leaks=1')
        # 1. demo on the clean tree
        san = False
        rc, out = build_demo(demo, inc, os.path.join(scratch, 'demo_clean'), san)
        if rc != 0:
            res['error'] = 'demo does not compile on the clean tree: ' + out[-800:]; print(json.dumps(res, indent=1)); return 2
        rc, out = run([os.path.join(scratch, 'demo_clean')], timeout=180, env=env_nosan)
        res['demo_clean_rc'] = rc
        if rc != 0:
            res['error'] = 'demo fails on the unchanged tree: ' + out[-600:]; print(json.dumps(res, indent=1)); return 2
        # 2. patch + suite
        rc, out = run(['patch', '-p1', '-s', '-i', os.path.abspath(patch)], cwd=scratch)
        if rc != 0:
            res['error'] = 'patch does not apply: ' + out[-600:]; print(json.dumps(res, indent=1)); return 2
        env = dict(os.environ, VERIF_REPO=scratch, VERIF_EVIDENCE_DIR=os.path.join(scratch, 'evidence'))
        rc, out = run([os.path.join(HERE, 'baseline_off.sh')], env=env)
        res['suite'] = out.strip().splitlines()[-1] if out.strip() else ''
        res['suite_passes'] = rc == 0
        # 3. demo on the changed tree (plain build first, then with sanitizers)
        fails = False
        for san in (False, True):
            rc, out = build_demo(demo, inc, os.path.join(scratch, 'demo_mut'), san)
            if rc != 0:
                res['demo_mut_build'] = out[-600:]; continue
            rc, out = run([os.path.join(scratch, 'demo_mut')], timeout=180, env=env_nosan)
            res['demo_mut_rc' + ('_san' if san else '')] = rc
            res['demo_mut_out' + ('_san' if san else '')] = out[-400:]
            if rc != 0:
                fails = True; break
        if not fails and res.get('demo_clean_rc') == 0:
            # sanitizer build of the clean tree must still pass if that was what failed
            pass
        res['demo_fails_with_change'] = fails
        # 4. the checks
        res['checks'] = {}
        for c in [pid] + also:
            t0 = time.time()
            rc, out = run([os.path.join(HERE, 'check'), c, '--tier', tier], env=env, cwd=HERE)
            vio = [l.strip() for l in out.splitlines() if l.startswith('  [')][:4]
            res['checks'][c] = {'verdict': {0: 'MISSED', 1: 'DETECTED'}.get(rc, 'BROKEN rc=%d' % rc), 'tier': tier, 'wall_s': round(time.time() - t0, 1), 'violations': [v[:300] for v in vio]}
            if rc not in (0, 1):
                res['checks'][c]['tail'] = out[-1200:]
        res['ok'] = bool(res.get('suite_passes') and fails)
        print(json.dumps(res, indent=1))
        if keep and res['ok']:
            dst = os.path.join(HERE, 'seeded', sid)
            os.makedirs(dst, exist_ok=True)
            for f in ('patch.diff', 'demo.cpp', 'notes.md'):
                if os.path.exists(os.path.join(d, f)) and os.path.abspath(os.path.join(d, f)) != os.path.abspath(os.path.join(dst, f)):
                    shutil.copy(os.path.join(d, f), os.path.join(dst, f))
            old_meta = {}
            if os.path.exists(os.path.join(dst, 'meta.json')):
                try: old_meta = json.load(open(os.path.join(dst, 'meta.json')))
                except Exception: old_meta = {}
            meta = {'seed': sid, 'breaks_property': pid, 'needs_to_manifest': old_meta.get('needs_to_manifest', ''), 'confirmed': {'suite_passes_with_change': res['suite_passes'], 'demo_passes_without_change': True, 'demo_fails_with_change': fails, 'suite_line': res['suite']},
                    'what_was_run': ['g++ -std=c++17 -O1 -g -pthread demo.cpp on a scratch copy of /repo (clean): exit 0', 'patch -p1 < patch.diff; baseline_off.sh (299 tests) on the changed copy', 'demo on the changed copy: fails', './check %s --tier %s with VERIF_REPO=<changed copy>' % (' / '.join([pid] + also), tier)],
                    'checks': res['checks']}
            json.dump(meta, open(os.path.join(dst, 'meta.json'), 'w'), indent=1)
        return 0
    finally:
        shutil.rmtree(scratch, ignore_errors=True)


if __name__ == '__main__':
    sys.exit(main())
