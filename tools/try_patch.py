#!/usr/bin/env python3
"""Apply a patch to a scratch copy of the repository (outside /repo and /verif), optionally run the
repository's own suite on it, run the named checks against it, and delete the copy.
   tools/try_patch.py <patch.diff> [--suite] [--tier quick|thorough] <ID> [<ID> ...]
Prints one line per check: DETECTED / MISSED / BROKEN."""
import sys, os, subprocess, tempfile, shutil
HERE = os.path.dirname(os.path.dirname(os.path.abspath(__file__)))
args = sys.argv[1:]
patch = os.path.abspath(args[0]); ids = []; suite = False; tier = 'quick'
i = 1
while i < len(args):
    if args[i] == '--suite': suite = True
    elif args[i] == '--tier': tier = args[i + 1]; i += 1
    else: ids.append(args[i])
    i += 1
scratch = tempfile.mkdtemp(prefix='verif-mut-', dir='/var/tmp')
rc_all = 0
try:
    for d in ('include', 'tests'):
        shutil.copytree(os.path.join('/repo', d), os.path.join(scratch, d), ignore=shutil.ignore_patterns('build'))
    p = subprocess.run(['patch', '-p1', '-s', '-i', patch], cwd=scratch, stdout=subprocess.PIPE, stderr=subprocess.STDOUT, text=True)
    if p.returncode != 0:
        print('PATCH-FAILED', p.stdout); sys.exit(3)
    env = dict(os.environ, VERIF_REPO=scratch, VERIF_EVIDENCE_DIR=os.path.join(scratch, 'evidence'))
    if suite:
        p = subprocess.run([os.path.join(HERE, 'baseline_off.sh')], env=env, stdout=subprocess.PIPE, stderr=subprocess.STDOUT, text=True)
        print('SUITE', 'passes' if p.returncode == 0 else 'FAILS', p.stdout.strip().splitlines()[-1] if p.stdout.strip() else '')
    for pid in ids:
        p = subprocess.run([os.path.join(HERE, 'check'), pid, '--tier', tier], env=env, cwd=HERE, stdout=subprocess.PIPE, stderr=subprocess.STDOUT, text=True)
        vio = [l for l in p.stdout.splitlines() if l.startswith('VIOLATION') or l.startswith('  [')]
        status = {0: 'MISSED', 1: 'DETECTED'}.get(p.returncode, 'BROKEN(rc=%d)' % p.returncode)
        print('%s %s %s' % (pid, status, os.path.basename(patch)))
        for l in vio[:6]:
            print('    ' + l[:260])
        if p.returncode not in (0, 1):
            print(p.stdout[-1500:])
        # evidence written against the scratch tree must not stay
finally:
    shutil.rmtree(scratch, ignore_errors=True)
