#!/usr/bin/env python3
"""Runs every patch under mutants/ through tools/try_patch.py (suite + the property named by the file prefix cNN_/revert_)
and writes mutants/RESULTS.md.   tools/run_mutants.py [name-substring ...]"""
import os, sys, re, subprocess
HERE = os.path.dirname(os.path.dirname(os.path.abspath(__file__)))
extra = {'revert_fix_getevent_reference_detection': ['C04'], 'revert_fix_heter_queue_nonconst_ref_prototype': ['C14'], 'revert_fix_heter_include_forward_into_getevent': ['C14'], 'revert_fix_dispatch_eval_order': ['C04', 'C20'], 'revert_fix_uninit_queue_counters': ['C10', 'C20'], 'c02_freenode_clears_links': ['C02', 'C03'], 'c03_spinlock_unlock_noop': ['C03', 'C02']}
# --no-suite: do not rebuild and rerun the repository's suite for every mutant (it takes minutes, and up to 15 when a mutant makes
# the multi-threaded tests hang); the suite column is then carried over from the previous RESULTS.md (a mutant's effect on the
# repository's own tests does not depend on /verif), "passes" for reverts of fixes (the tree before the fix passed the suite)
no_suite = '--no-suite' in sys.argv
sys.argv = [a for a in sys.argv if a != '--no-suite']
old_suite = {}
try:
    for line in open(os.path.join(HERE, 'mutants', 'RESULTS.md')):
        c = [x.strip() for x in line.split('|')]
        if len(c) > 3 and c[1] and c[1] != 'mutant' and not c[1].startswith('-'):
            old_suite[c[1]] = c[2]
except IOError:
    pass
rows = []
for f in sorted(os.listdir(os.path.join(HERE, 'mutants'))):
    if not f.endswith('.diff'): continue
    name = f[:-5]
    if sys.argv[1:] and not any(a in name for a in sys.argv[1:]): continue
    m = re.match(r'c(\d\d)_', name)
    ids = extra.get(name) or (['C' + m.group(1)] if m else [])
    if not ids: continue
    p = subprocess.run([os.path.join(HERE, 'tools', 'try_patch.py'), os.path.join(HERE, 'mutants', f)] + ([] if no_suite else ['--suite']) + ids, stdout=subprocess.PIPE, stderr=subprocess.STDOUT, text=True)
    out = p.stdout
    suite = 'passes' if 'SUITE passes' in out else ('FAILS' if 'SUITE FAILS' in out else '?')
    if no_suite:
        suite = old_suite.get(name, 'passes (the tree before the fix)' if name.startswith('revert_') else '?')
    verdicts = re.findall(r'^(C\d\d) (DETECTED|MISSED|BROKEN\S*)', out, re.M)
    first = ''
    for l in out.splitlines():
        if l.strip().startswith('['):
            first = l.strip()[:160]; break
    rows.append((name, suite, ', '.join('%s %s' % v for v in verdicts), first))
    print(name, suite, verdicts, first[:100], flush=True)
with open(os.path.join(HERE, 'mutants', 'RESULTS.md'), 'w') as fh:
    fh.write('# Hand-written mutants (detection demonstrations)\n\nEach patch is applied to a scratch copy of /repo by `tools/try_patch.py`; "suite" is the repository\'s own 299 tests on the patched copy. A mutant the suite already catches is not a realistic seeded change, it is listed for completeness.\n\n| mutant | repository suite | checks (quick tier) | first violation |\n|---|---|---|---|\n')
    for r in rows:
        fh.write('| %s | %s | %s | %s |\n' % (r[0], r[1], r[2], r[3].replace('|', '/')))
print('wrote mutants/RESULTS.md')
