# Property table for ./check: which harness units decide which property, under which build variants.

SAN = ['-g', '-fsanitize=address,undefined', '-fno-sanitize-recover=all', '-fno-omit-frame-pointer']


def _v(cxx, std, opt, san=True, extra=()):
    return {'cxx': cxx, 'flags': ['-std=' + std, opt, '-w'] + (SAN if san else ['-g']) + list(extra)}


VARIANTS = {
    'g17': _v('g++', 'c++17', '-O1'),
    'g11': _v('g++', 'c++11', '-O2'),
    'g14': _v('g++', 'c++14', '-O1'),
    'g20': _v('g++', 'c++20', '-O2'),
    'g17O0': _v('g++', 'c++17', '-O0'),
    'c17': _v('clang++', 'c++17', '-O1'),
    'c11': _v('clang++', 'c++11', '-O0'),
    'c14': _v('clang++', 'c++14', '-O2'),
    'c20': _v('clang++', 'c++20', '-O2'),
    'g11O0': _v('g++', 'c++11', '-O0'),
    'g14O2': _v('g++', 'c++14', '-O2'),
    'g20O0': _v('g++', 'c++20', '-O0'),
    'c11O2': _v('clang++', 'c++11', '-O2'),
    'c14O0': _v('clang++', 'c++14', '-O0'),
    'c17O2': _v('clang++', 'c++17', '-O2'),
    'c20O0': _v('clang++', 'c++20', '-O0'),
}

H_ASSUME = [
    'bounded: the caps on live callbacks / pending events / pool size / nesting depth stated in "bounds"',
    'the reference model (fw + harness source) states the property correctly',
    'sequential-consistency, single-threaded execution of the real eventpp templates compiled by the named compiler',
    'private state is read through -fno-access-control only to build canonical state keys; verdicts are behavioural (model disagreement, ledger, sanitizer, deadlock)',
]

PROPS = {}
NOT_APPLICABLE = {}


def split(src, prefix, only, nsub, variants, quick_variants=None, **kw):
    ps = []
    for i in range(nsub):
        d = {'src': src, 'prefix': prefix, 'variants': variants, 'defs': ['VERIF_ONLY=%d' % only, 'VERIF_SUB=%d' % i]}
        if quick_variants:
            d['quick_variants'] = quick_variants
        d.update(kw)
        ps.append(d)
    return ps

PROPS['C01'] = {
    'title': 'CallbackList invokes exactly the current callbacks, once each, in list order',
    'level': 'model_checking',
    'parts': split('harness/list.cpp', 'C01/', 1, 4, ['g17'], ['g17O0']),
    'rule': 'explicit-state BFS over histories of the flat CallbackList/EventDispatcher alphabet (append, prepend, insert before slot/empty handle, remove slot, ownsHandle, empty, invoke with 2 argument sets, forEach x2, forEachIf stop-after 0/1/2, eventutil has/remove); a state is model + private-link snapshot, canonical up to renaming; distinct = distinct per-execution observation hashes',
    'assumptions': H_ASSUME,
    'bounds': {'quick': 'K=4 live callbacks (dispatcher: 3 over 2 events), 4 handle slots (live/stale/empty/reused), BFS depth 5-8 per unit', 'thorough': 'BFS to fixpoint (frontier empty, reached at depth 18-27), also with K=5 and K=6 (dispatcher K=4)'},
}

PROPS['C02'] = {
    'title': 'Callbacks may mutate or re-invoke the list that is invoking them, safely',
    'level': 'model_checking',
    'parts': split('harness/list.cpp', 'C02/', 2, 4, ['g17']),
    'rule': 'BFS over histories where every callback invoked takes PROG choices (append, prepend, insert before self/slot, remove self/slot, ownsHandle self/slot, forEach, empty, nested invoke up to depth 3) with a per-step budget B of actions; all PROG choice sequences within B are enumerated for every state; search continues from the resulting (possibly odd-looking) states',
    'assumptions': H_ASSUME,
    'bounds': {'quick': 'K=3, per-step budget B=2 (vmutex/single) or 1 (spinlock/std::mutex/dispatcher), depth 4', 'thorough': 'B=2 depth 6 (list), B=3 depth 3-4, spinlock/std::mutex/dispatcher B=2 depth 5'},
    'stall': 20,
}

PROPS['C19'] = {
    'title': 'Generation-counter wrap-around never loses or resurrects a callback',
    'level': 'model_checking',
    'parts': split('harness/list.cpp', 'C19/', 19, 2, ['g17'], ['g17O0']),
    'rule': 'the C01/C02 search with currentCounter preset to UINT_MAX-p for every p in 0..6 and the absolute distance-to-wrap in the state key, so the wrap happens before, at and after every position of every explored history (also inside nested invocations); plus (an extension: the property ranges over sequential histories) the concurrent WRAP units of C03 - all schedules within the preemption bound, and all interleavings of the 2-call configurations, of thread programs in which one of the additions wraps the counter while other threads remove, traverse and add',
    'assumptions': H_ASSUME + ['currentCounter is placed through private access (the suite does the same through #define private public)'],
    'bounds': {'quick': 'K=3, B=1, depth = preset+4 (<=9); pools of 3 lists depth 5', 'thorough': 'K=3, B=2, depth 10-11; pools depth 8'},
}

PROPS['C08'] = {
    'title': 'Stored callbacks and arguments are destroyed exactly once, never leaked',
    'level': 'model_checking',
    'parts': split('harness/list.cpp', 'C08/', 8, 2, ['g17']),
    'rule': 'the C01/C02/C05/C10 searches re-run with the live-instance ledger as the only oracle: at every quiescent point the number of live callback/payload objects per id equals what the model says the containers hold; nothing alive after destruction; no double destruction or use after destruction',
    'assumptions': H_ASSUME,
    'bounds': {'quick': 'as C02/C05/C10 quick (list B=2 depth 4, queue depth 4-5, pools depth 5, fault runs depth 4-5)', 'thorough': 'list B=2 depth 5-6, queue flat to fixpoint and nested budget 2 depth 4, pools depth 8, fault runs depth 7-10'},
}

S_ASSUME = [
    'sequentially consistent interleavings only (weak-memory executions of the acquire/release operations are not explored)',
    'scheduling points: every operation of the injected Threading policy (mutex lock, atomic load/store/inc/dec/exchange, condition wait/notify), every operation on the queue\'s shared lists (QueueList policy), every EVENTPP_VERIF_POINT hook (unlocked reads, inside critical sections), thread start/exit, and before parking in a condition wait',
    'preemption-bounded: all schedules with at most the stated number of preemptions (switches away from a thread that could continue); free choices (who runs when the current thread blocks or ends, which waiter notify_one wakes) are explored in full',
    'the condition variable model (fw/sched.h VCondVar) follows the standard contract; waitFor durations are abstracted to {0, positive}; no spurious wake-ups',
    'std::map/unordered_map of listeners and the listener callbacks themselves are not scheduling points',
]

PROPS['C06'] = {
    'title': 'Concurrent producers and consumers never lose or duplicate an event',
    'level': 'exploration',
    'parts': [{'src': 'harness/squeue.cpp', 'prefix': 'C06/', 'variants': ['g17'], 'defs': ['VERIF_ONLY=6']}],
    'rule': 'stateless DFS over all schedules of each generated thread configuration (1-2 producers x 1-2 consumers, consumer op lists of length 1-2 over process/processOne/processIf/processUntil/takeEvent/peekEvent/clearEvents) within the preemption bound; oracle = per-event ledger (exactly once, payload intact, destroyed undelivered only inside clearEvents), per producer/consumer order, no deadlock, HB race detector on the shared lists; distinct = distinct per-execution outcome hashes (ledger + call results)',
    'assumptions': S_ASSUME,
    'bounds': {'quick': '<=3 child threads, <=3 events, preemption bound 2 (HeterEventQueue: 1); stateful units: all interleavings of 2-3 thread configurations, no preemption bound', 'thorough': 'preemption bound 3 for <=3 child threads, 2 for the 4-thread configurations (HeterEventQueue: 2); stateful units: further 3-thread configurations, no preemption bound'},
    'deadline': {'quick': 170, 'thorough': 1700},
}

PROPS['C07'] = {
    'title': 'wait/waitFor never miss a wake-up; DisableQueueNotify only defers it',
    'level': 'exploration',
    'parts': [{'src': 'harness/squeue.cpp', 'prefix': 'C07/', 'variants': ['g17'], 'defs': ['VERIF_ONLY=7']}],
    'rule': 'stateless DFS over all schedules of waiter/enqueuer/processor configurations (1-2 waiters using wait or waitFor, enqueuers with plain, single and nested DisableQueueNotify scopes, bare DisableQueueNotify scopes on a third thread, optional processor, selective consumers processIf/processUntil that put declined events back without notifying) within the preemption bound; terminal states with a thread blocked in wait() are judged by the oracle (pending event + no DisableQueueNotify alive = lost wake-up); wait-return clauses checked on the recorded intervals; distinct = distinct per-execution outcome hashes',
    'assumptions': S_ASSUME,
    'bounds': {'quick': '<=3 child threads, preemption bound 2; stateful units: all interleavings of 2-3 thread configurations, no preemption bound', 'thorough': 'preemption bound 3 for <=3 child threads, 2 for the 4-thread configurations; one spurious wake-up allowed as a further deviation; stateful units: further 3-thread configurations, no preemption bound'},
    'deadline': {'quick': 170, 'thorough': 1700},
}

PROPS['C11'] = {
    'title': 'A queue is never reported empty while an event is pending or in dispatch',
    'level': 'exploration',
    'parts': [{'src': 'harness/squeue.cpp', 'prefix': 'C11/', 'variants': ['g17'], 'defs': ['VERIF_ONLY=11']}],
    'rule': 'stateless DFS over all schedules of observer (emptyQueue / waitFor(0)) x enqueuer x worker (process/processOne/processIf/processUntil/takeEvent/clearEvents) configurations within the preemption bound, listeners themselves calling emptyQueue(); oracle: for every true emptyQueue() / timed-out waitFor with interval [s,r], each event whose enqueue returned before s has by r had its listener return, or its take/clear call begin (intervals oriented so imprecision only weakens the check)',
    'assumptions': S_ASSUME,
    'bounds': {'quick': '3 child threads, preemption bound 2 (HeterEventQueue: 1); sequential listener-observer search budget 1; stateful units: all interleavings of 2-3 thread configurations, no preemption bound', 'thorough': 'preemption bound 3 for 3 child threads, 2 for the 4-thread configurations; stateful units: further 3-thread configurations, no preemption bound'},
    'deadline': {'quick': 170, 'thorough': 1700},
}

PROPS['C03'] = {
    'title': 'Listener management and dispatch are thread-safe and linearizable',
    'level': 'exploration',
    'parts': [{'src': 'harness/slist.cpp', 'prefix': 'C03/', 'variants': ['g17'], 'defs': ['VERIF_SUB=%d' % i]} for i in range(7)],
    'rule': 'stateless DFS over all schedules of generated configurations (2 threads x 1 op: all pairs; 3 threads x 1 op: triples with a traversal or two operations on the shared handle h1; 2 threads x 2 ops) over {append, prepend, insert before h1, remove h1, remove h2, ownsHandle h1, empty, invoke, forEach; dispatcher: + appendListener/dispatch/hasAnyListener on a second event created concurrently} on a shared initial list [0,1,2]; oracle: brute-force linearizability of all non-traversal calls + final order, per-traversal rules, destructive probe after join, deadlock, HB race detector on the map, ASan/UBSan; distinct = distinct per-execution outcome hashes; plus STATEFUL units (C03/all-interleavings/...): ALL interleavings of the same configurations without a preemption bound, pruned by a visited set over global states (list/map structure, mutex owners, per-thread operation index + observation hash into which the whole shared-structure hash is mixed at the start of every atomic block, recorded call results and their order)',
    'assumptions': S_ASSUME + ['CallbackList head/tail/links are ordinary memory: a removed lock shows through the mid-critical-section hook points as a lost update (behavioural oracle), not through the race detector'],
    'bounds': {'quick': 'preemption bound 3 (list+VMutex) / 2 (SpinLock; dispatcher with std::map / std::unordered_map through the Map policy; wrap and faulting-append families); collision-rich subset of the 2x2 and 3x1 configurations, plus lists emptied by the removals and lists starting empty; stateful units: all interleavings of 2-3 thread configurations (wrap family: the 2-call configurations), no preemption bound', 'thorough': 'preemption bound 5 (list+VMutex) / 4 (SpinLock, dispatcher, wrap list) / 3 (SpinLock dispatcher, wrap dispatcher, faulting-append), one less for 3-thread configurations; all configurations; stateful units: further 3-thread configurations and the whole quick wrap set, no preemption bound'},
    'deadline': {'quick': 170, 'thorough': 1700},
}

PROPS['C03']['parts'] += [{'src': 'harness/sheter.cpp', 'prefix': 'C03/heter/', 'variants': ['g17']}]
# the generation counter wraps during one of the concurrent additions (fix 15 was found here)
WRAP_PARTS = [{'src': 'harness/slist.cpp', 'prefix': 'C03/wrap/', 'variants': ['g17'], 'defs': ['VERIF_SUB=%d' % i]} for i in (7, 8)]
PROPS['C03']['parts'] += WRAP_PARTS
FAULTING_PARTS = [{'src': 'harness/slist.cpp', 'prefix': 'C03/faulting-append/', 'variants': ['g17'], 'defs': ['VERIF_SUB=9']}]
PROPS['C03']['parts'] += FAULTING_PARTS
PROPS['C03']['rule'] += '; plus FAULTING-APPEND units: one thread appends a callback whose copy constructor throws inside the library while the other threads add, remove and traverse (also with the counter wrapping on a successful addition): the failed call reports the exception and has no effect in any schedule'
PROPS['C03']['rule'] += '; plus WRAP units (C03/wrap/...): the same kinds of configurations (wrapping addition x any call; x two calls; addition+follow-up x two calls; from an empty list) with the generation counter placed so that the 1st, 2nd, ... addition made by the threads wraps it, so that the renumbering of all nodes races removals, traversals and other additions - bounded (CallbackList with VMutex and SpinLock, EventDispatcher) and all-interleavings (CallbackList)'
PROPS['C03']['rule'] += '; plus (an extension beyond the anchored classes) HeterCallbackList / HeterEventDispatcher with the injected Threading policy: all pairs of {append/prepend per prototype, invoke per prototype, remove of a pre-registered handle, append under a second event} on 2 threads, triples around the lazily created per-prototype list, 2x2 programs in the thorough tier; the inner per-prototype lists (which always use std::mutex) are atomic blocks; oracle: nothing registered is lost or duplicated after the threads joined, a handle is removed at most once, an invocation calls nothing twice and nothing of another prototype, no deadlock'

PROPS['C05'] = {
    'title': 'EventQueue consumes every queued event exactly once, in FIFO order',
    'level': 'model_checking',
    'parts': split('harness/queue.cpp', 'C05/', 5, 4, ['g17'], ['g17O0']),
    'rule': 'BFS over histories of {enqueue (both argument-passing forms, 2 keys), process, processOne, processIf x4 predicates, processUntil x4 predicates, peekEvent, takeEvent, takeEvent+dispatch(QueuedEvent), clearEvents, emptyQueue+waitFor(0), appendListener, removeListener slot}; listeners and predicates take PROG choices (enqueue, listener changes, emptyQueue, peek, nested process/processOne/clearEvents/takeEvent); lock-step model predicts the next callback (listener with event, or predicate) at every moment; state key includes free-list length and both counters; payload taken by the prototype as const&, by value, or a move-only type (no peekEvent there)',
    'assumptions': H_ASSUME,
    'bounds': {'quick': 'K=3 pending (2 in nested units), <=2 listeners, flat depth 4-5, nested budget 1 depth 4; arity matrix N=0..8; 4 type-matrix cells', 'thorough': 'flat to fixpoint (reached at depth 20), nested budget 2 depth 4; 13 type-matrix cells per key type under g++ and clang++'},
}
PROPS['C13'] = {
    'title': 'OrderedQueueList processes events in comparator order, stably, exactly once',
    'level': 'model_checking',
    'parts': split('harness/queue.cpp', 'C13/', 13, 4, ['g17'], ['g17O0']),
    'rule': 'complete enumeration of a family of WIDE queues (N pending events for every N up to the bound x key patterns with long runs of equal keys x every consuming form that re-sorts) against a stable-sort model; and the C05 search with QueueList = OrderedQueueList and comparators ascending key / descending key / key mod 2 (large equivalence classes) over keys {1,2,3} with duplicates; the model keeps its deque stably sorted (declined events re-enter ahead of equal newer ones)',
    'assumptions': H_ASSUME,
    'bounds': {'quick': 'K=3 (4 for mod-2) pending, flat depth 5, nested budget 1 depth 4; wide family: N = 1..40 pending x 8 key patterns x 8 consuming forms x 3 comparators, complete', 'thorough': 'flat to fixpoint (depth 20) for K=3; mod-2 classes with K=4 to depth 9; nested budget 2 depth 4; wide family up to N = 96'},
}
PROPS['C08']['parts'] += split('harness/queue.cpp', 'C08/', 8, 2, ['g17'])
PROPS['C08']['parts'] += [{'src': 'harness/faults.cpp', 'prefix': 'C08/', 'variants': ['g17'], 'quick_variants': ['g17O0'], 'defs': ['VERIF_PREFIX="C08/under-faults"', 'VERIF_SUB=%d' % i], 'only_sigs': 'leak|ledger|fatal'} for i in (0, 2, 4)]
PROPS['C08']['rule'] += '; plus the fault-enumeration runs of C09 (CallbackList, EventQueue, heterogeneous and remover subjects) with only the leak/ledger clauses counted'
PROPS['C08']['parts'] += [{'src': 'harness/pool.cpp', 'prefix': 'C08/', 'variants': ['g17'], 'quick_variants': ['g17O0'], 'defs': ['VERIF_PREFIX="C08/pool"', 'VERIF_SUB=%d' % i], 'only_sigs': 'leak|ledger|fatal'} for i in (0, 2, 4)]
PROPS['C08']['parts'] += [{'src': 'harness/anydata.cpp', 'prefix': 'C17/', 'variants': ['g17O0'], 'defs': ['VERIF_SUB=%d' % i], 'only_sigs': 'ledger|destroyed|leak|held-object'} for i in (1, 3)]
PROPS['C08']['rule'] += '; plus the AnyData enumeration of C17 (capacities 16 and 64: every payload kind, size, move chain and queue round trip, incl. a held type that throws) with only the ledger clauses counted'
PROPS['C19']['parts'] += [{'src': 'harness/pool.cpp', 'prefix': 'C19/pool/CallbackList/single/near-wrap', 'variants': ['g17'], 'quick_variants': ['g17O0'], 'defs': ['VERIF_PREFIX="C19/pool"', 'VERIF_NEARWRAP_ALL', 'VERIF_SUB=0']}, {'src': 'harness/pool.cpp', 'prefix': 'C19/pool/CallbackList/multi/near-wrap', 'variants': ['g17'], 'tier': 'thorough', 'defs': ['VERIF_PREFIX="C19/pool"', 'VERIF_NEARWRAP_ALL', 'VERIF_SUB=0']}]
PROPS['C19']['parts'] += [dict(x) for x in WRAP_PARTS]
PROPS['C19']['rule'] += '; plus pools of 3 CallbackLists with counters preset 0..4 steps before the wrap: copy/move construction and assignment, swap and nested additions between lists whose counters are on different sides of the wrap'
PROPS['C08']['rule'] += '; plus the C10 object-pool searches (copies, moves, swaps of 3 container types) with the callback-copy ledger as the only oracle'
PROPS['C05']['parts'] += [{'src': 'harness/dispatch.cpp', 'prefix': 'C05/', 'variants': ['g17O0'], 'defs': ['VERIF_QUEUE', 'VERIF_SUB=2', 'VERIF_FULL=0'], 'tier': 'quick'}]
PROPS['C05']['parts'] += [{'src': 'harness/dispatch.cpp', 'prefix': 'C05/', 'variants': ['g17', 'c17'], 'defs': ['VERIF_QUEUE', 'VERIF_SUB=%d' % i, 'VERIF_FULL=1'], 'tier': 'thorough'} for i in range(5)]
PROPS['C05']['rule'] += '; plus the C04 type-matrix cells driven through EventQueue (enqueue in every value category, then process) for key types int / enum / std::string / user structs, both argument-passing forms and a getEvent policy'
for _pid, _n in (('C06', 6), ('C07', 7), ('C11', 11)):
    PROPS[_pid]['parts'] += [{'src': 'harness/sfull.cpp', 'prefix': _pid + '/all-interleavings/', 'variants': ['g17'], 'defs': ['VERIF_ONLY=%d' % _n]}]
    PROPS[_pid]['parts'] += [{'src': 'harness/sfull.cpp', 'prefix': _pid + '/all-interleavings/heter/', 'variants': ['g17'], 'defs': ['VERIF_ONLY=%d' % _n, 'VERIF_HETER']}]
    PROPS[_pid]['rule'] += '; plus STATEFUL exploration of small configurations (2-3 threads): ALL interleavings without a preemption bound, the DFS pruned by a visited set over global states (queue internals, per-thread operation index + hash of everything the thread observed from shared state, oracle state); the oracles of these units are functions of that state; the same for HeterEventQueue (no DisableQueueNotify/takeEvent there), whose plain std::list internals are hashed whole into the running thread\'s observations at every scheduling point'
    PROPS[_pid]['assumptions'] = PROPS[_pid]['assumptions'] + ['stateful units: a thread\'s local state is determined by its operation index and the values it obtained from shared state through the injected policies (the thread code is deterministic); two 64-bit hashes of the global state must both collide for a state to be wrongly merged']
PROPS['C11']['parts'] += [{'src': 'harness/queue.cpp', 'prefix': 'C11/', 'variants': ['g17'], 'defs': ['VERIF_ONLY=11', 'VERIF_SUB=0']}]

PROPS['C10'] = {
    'title': 'Copies are independent, moves transfer, swaps exchange; results fully functional',
    'level': 'model_checking',
    'parts': [{'src': 'harness/pool.cpp', 'prefix': 'C10/', 'variants': ['g17'], 'quick_variants': ['g17O0'], 'defs': ['VERIF_SUB=%d' % i]} for i in range(6)],
    'rule': 'BFS over histories on a pool of 3 objects of one type (CallbackList, EventDispatcher, EventQueue, HeterCallbackList, HeterEventDispatcher, HeterEventQueue, dispatcher/queue with MixinFilter) placed into storage pre-filled with 0xFF/0x00/0xA5: default/copy/move construction, copy/move assignment (incl. self copy-assign), member and ADL swap (incl. self), destroy, add, remove by position (handle obtained from forEach), churn (generation counters pushed apart), trigger with one nested action, enqueue/process/wait, appendFilter; after every operation every live object is triggered and compared with the model; fresh copies/moves of queues must report empty and work; ledger of callback copies',
    'assumptions': H_ASSUME + ['after a move the source only has to stay valid: the model adopts what it shows', 'whether filters travel with swap is left open (member swap exchanges the listener map only, std::swap moves everything): the model adopts what each object shows'],
    'bounds': {'quick': 'pool of 3, K=2 listeners per object, prior memory 0xFF, depth 5, one nested action', 'thorough': 'all three memory patterns, depth 8, plus near-wrap generation counters'},
}

PROPS['C15'] = {
    'title': 'No listener added through a ScopedRemover outlives its remover',
    'level': 'model_checking',
    'parts': [{'src': 'harness/scoped.cpp', 'prefix': 'C15/', 'variants': ['g17'], 'quick_variants': ['g17O0'], 'defs': ['VERIF_SUB=%d' % i]} for i in range(3)],
    'rule': 'BFS over histories on 2 targets and 3 remover slots (CallbackList, EventDispatcher, EventQueue): construct on target / default-construct, append/prepend/insert through a remover, direct append, direct removal from the target of a listener added through a remover or directly (the record the remover keeps expires), remove through a remover (owned / not owned / stale handle), reset, setDispatcher/setCallbackList (same and other target), move construction, move assignment into empty and non-empty removers, swap, destroy, destroy-all; after every operation both targets are triggered and the listeners that run compared with the model; listeners a move-assignment destination was responsible for may be detached at once or later but must be gone when every remover involved is gone',
    'assumptions': H_ASSUME + ['a moved-from remover is only destroyed, reset, re-targeted, assigned to or swapped (adding through it is not part of the alphabet)'],
    'bounds': {'quick': '<=3 listeners, depth 4-5', 'thorough': 'depth 8 (SpinLock unit: 7)'},
    'deadline': {'quick': 170, 'thorough': 1700},
}

PROPS['C14'] = {
    'title': 'Heterogeneous classes route by prototype and never confuse stored types',
    'level': 'model_checking',
    'parts': [{'src': 'harness/heter.cpp', 'prefix': 'C14/', 'variants': ['g17'], 'quick_variants': ['g17O0'], 'defs': ['VERIF_SUB=%d' % i]} for i in range(4)],
    'rule': 'BFS over histories on HeterCallbackList / HeterEventDispatcher (2 keys) / HeterEventQueue with prototypes void(int), void(const std::string&), void(const Big&) (72-byte tracked struct), void(): append/prepend/insert/remove of callables of each prototype and of a callable matching two prototypes (must bind to the first), invoke/dispatch/enqueue with int, char, std::string, const char*, Big, nothing; process, processOne, clearEvents, processIf with a predicate over each prototype x {accept, refuse, odd}; free-list length in the key so recycled slots of another prototype are reached; ASan/UBSan fatal; plus the include-event mode with a std::string key passed as lvalue/const lvalue/prvalue/std::move',
    'assumptions': H_ASSUME + ['predicates callable with several prototypes are not in the alphabet (the property states nothing about their order)'],
    'bounds': {'quick': 'K=3 pending, <=3 listeners, depth 4-5; arity matrix; overlapping prototypes; include-mode key categories', 'thorough': 'HeterCallbackList depth 10, HeterEventDispatcher depth 7, HeterEventQueue depth 8'},
}

PROPS['C04'] = {
    'title': 'dispatch reaches exactly the dispatched event\'s listeners, arguments intact',
    'level': 'model_checking',
    'parts': [{'src': 'harness/dispatch.cpp', 'prefix': 'C04/', 'variants': ['g17O0'], 'defs': ['VERIF_SUB=%d' % i, 'VERIF_FULL=0'], 'tier': 'quick'} for i in range(5)]
           + [{'src': 'harness/dispatch.cpp', 'prefix': 'C04/', 'variants': ['c17'], 'defs': ['VERIF_SUB=2', 'VERIF_FULL=0'], 'tier': 'quick'}]
           + [{'src': 'harness/dispatch.cpp', 'prefix': 'C04/', 'variants': ['g17', 'c17'], 'defs': ['VERIF_SUB=%d' % i, 'VERIF_FULL=1'], 'tier': 'thorough'} for i in range(5)],
    'rule': 'type matrix of EventDispatcher instantiations: key type {int, enum class, std::string beyond SSO, struct with <, struct with std::hash and ==} x how the prototype takes key and payload {by value, const&, payload &} x ArgumentPassingMode {auto, include, exclude} (both dispatch forms) x getEvent {default, policy reading a field of the argument that a move clears} x Map {default ordered/hashed, user template}; in each cell a BFS over listener histories (append/prepend/remove on 3 keys, listeners alternately taking arguments by value and by reference) with dispatch of every key in 6 call-site value-category combinations; g++ (right-to-left argument evaluation) and clang++ (left-to-right)',
    'assumptions': H_ASSUME + ['the matrix is a covering selection of the full product (4 cells per key type in the quick tier, 13 in the thorough tier), not the full product'],
    'bounds': {'quick': '7 cells per key type (5 key types) under g++ + the std::string cells under clang++, <=3 listeners, depth 3', 'thorough': '20 cells per key type x (g++, clang++), depth 5'},
    'per_variant_sigs': True,
}

PROPS['C09'] = {
    'title': 'Exceptions propagate and leave every container consistent and leak-free',
    'level': 'fault_enumeration',
    'engine': 'F',
    'parts': [{'src': 'harness/faults.cpp', 'prefix': 'C09/', 'variants': ['g17'], 'quick_variants': ['g17O0'], 'defs': ['VERIF_SUB=%d' % i]} for i in range(6)],
    'rule': 'BFS over small states of CallbackList, EventDispatcher with a throwing key type (std::map and std::unordered_map), EventQueue (plain, OrderedQueueList with a throwing comparator, MixinFilter), HeterCallbackList/HeterEventDispatcher, HeterEventQueue (int and throwing-payload prototypes), and ScopedRemover/CounterRemover/ConditionalRemover adds; in every state every operation is executed once per fault point with exactly that point failing (replaced global operator new -> std::bad_alloc; callback copy/invoke, key copy/compare/hash, argument copy/move/assign, predicate, filter, comparator, enumeration functor -> injected exception); the number of fault points per operation is discovered, not assumed; after each injected run: exception type at the caller, container vs the unchanged (or per-guarantee) model by observation, ledger, emptiness/waiting, then the search continues from the post-fault state (faults in succession); distinct = distinct (observation, fault site) outcome hashes',
    'assumptions': ['bounded: <=3 callbacks / <=3 pending events, BFS depth as stated', 'fault points inside destructors and inside noexcept standard-library internals are not injected (the language forbids throwing there)',
                    'std::terminate is trapped and reported as a violation', 'guarantee per operation as in the property: strong for listener management (also through the removers), enqueue, peekEvent, callback-list copy assignment; source untouched + destination valid for copies; callbacks\' own effects stand for invocations; only taken-out events lost for process*; no leak + usable for the rest'],
    'bounds': {'quick': '<=3 callbacks / <=3 pending events, depth 4-5, one fault per operation (pairs arise across consecutive operations)', 'thorough': '<=4 callbacks / <=4 pending, depth 7-10 (fixpoint reached earlier in most units), up to two faults inside one operation'},
    'technique': 'exhaustive fault enumeration: every k-th fault point of every operation in every reachable small state, on the real code, explored by the choice-tree explorer',
}

PROPS['C09']['parts'] += [dict(x) for x in FAULTING_PARTS]
PROPS['C09']['rule'] += '; plus (an extension: the property ranges over sequential fault sequences) the FAULTING-APPEND units of C03: a failing append overlapping other threads\' additions, removals and traversals under the scheduler, all schedules within the preemption bound'

PROPS['C16'] = {
    'title': 'CounterRemover and ConditionalRemover detach listeners exactly when promised',
    'level': 'model_checking',
    'parts': [{'src': 'harness/removers.cpp', 'prefix': 'C16/', 'variants': ['g17'], 'quick_variants': ['g17O0'], 'defs': ['VERIF_SUB=%d' % i]} for i in range(4)],
    'rule': 'BFS over histories on CallbackList, EventDispatcher, EventQueue (trigger = enqueue+process, nested = dispatch), HeterCallbackList, HeterEventDispatcher: add through CounterRemover with n in {1,2,3,0,-1,-2} x {append, prepend, insert}, add through ConditionalRemover with condition outcome sequences {true at 1st/2nd/3rd evaluation, never} x {condition with / without arguments} x {append, prepend}, plain listeners, removal by handle, trigger; the wrapped listener takes PROG choices (re-dispatch the same event up to depth 3, remove itself by handle, remove a neighbour); helper objects are temporaries (destroyed before the first trigger); model: wrapped listener invoked on exactly the first max(n,1) triggers / up to and including the first true condition, condition evaluated exactly once per trigger with the trigger argument',
    'assumptions': H_ASSUME,
    'bounds': {'quick': '<=3 listeners, <=2 wrapped, depth 4, 1 nested action per step', 'thorough': 'depth 6-7, 2 nested actions per step'},
}

PROPS['C12'] = {
    'title': 'Filters and canContinueInvoking gate every dispatch, synchronous or queued',
    'level': 'model_checking',
    'parts': [{'src': 'harness/filters.cpp', 'prefix': 'C12/', 'variants': ['g17'], 'quick_variants': ['g17O0'], 'defs': ['VERIF_SUB=%d' % i]} for i in range(5)],
    'rule': 'BFS over histories on EventDispatcher/EventQueue with MixinFilter (prototypes taking arguments by value, by mutable reference, by const reference; one and two mixins): appendFilter {pass, block, add-1, block-if-arg==1}, removeFilter, appendListener/removeListener on 2 events, dispatch / enqueue+process/processOne with v in {0,1,2}; the model predicts the exact sequence of filter and listener calls and the value each sees; plus complete enumerations of finite input domains: canContinueInvoking (<=3 listeners of 3 kinds x start value x CallbackList/EventDispatcher), HeterEventDispatcher+MixinHeterFilter (filter kinds x removal x values), conditionalFunctor (4 condition kinds incl. stateful x 5 values) and argumentAdapter (int->long, double->int, Base&->Derived&, shared_ptr<Base>->shared_ptr<Derived>; all three factory overloads)',
    'assumptions': H_ASSUME + ['HeterEventQueue + MixinHeterFilter is not a configuration that compiles on this tree (PrototypeList is private in HeterEventQueueBase), and MixinHeterFilter only compiles for arguments whose lvalue type equals the filter prototype; neither is ranged over'],
    'bounds': {'quick': '<=3 filters, <=2 listeners, <=2 pending, depth 4-5', 'thorough': 'dispatcher depth 9, queue depth 7'},
}

E_ASSUME = ['finite input domain enumerated completely (no sampling); value alphabet and size range as stated in the rule', 'alignment above alignof(void*) is not part of the domain', 'ASan/UBSan are part of the oracle']
PROPS['C17'] = {
    'title': 'AnyData holds, moves and destroys its value like the value itself',
    'level': 'exploration',
    'engine': 'E',
    'parts': [{'src': 'harness/anydata.cpp', 'prefix': 'C17/', 'variants': ['g17O0'], 'defs': ['VERIF_SUB=%d' % i]} for i in range(4)],
    'rule': 'complete enumeration: AnyData<1>, <16>, <24>, <64> x payload kinds {trivial bytes: every size 1..capacity+17; tracked non-trivial (ledger): every size 5..capacity+17; move-only (unique_ptr + padding), shared-ownership (shared_ptr + padding) and self-referential (trivially destructible but with a user move constructor, pointing into itself): every multiple of 8 up to capacity+24} x construction from lvalue / const lvalue / rvalue x move chains of length 0..3 x direct / round trip through EventQueue<int, void(const AnyData&)> (enqueue, process, recycled slot, clearEvents, destruction with a pending event); oracle: value equality through get<T>, T&, T*, getAddress stable, isType<U> over a list of 24 probe types incl. same-size other kinds, exactly one copy from lvalues and none on moves, ledger exactly-once destruction; a case is non-trivial and distinct per (capacity, kind, size, category, chain, route)',
    'assumptions': E_ASSUME + ['takeEvent/peekEvent cannot be instantiated with AnyData arguments (no default constructor / assignment), so the queue round trip uses enqueue/process/processOne/clearEvents'],
    'bounds': {'quick': 'all cases (compile-dominated)', 'thorough': 'same cases'},
    'technique': 'bounded-exhaustive enumeration of the input space on the real code with sanitizers and a destruction ledger',
}
PROPS['C18'] = {
    'title': 'AnyId keys are coherent: equality, ordering and hash agree',
    'level': 'exploration',
    'engine': 'E',
    'parts': [{'src': 'harness/anyid.cpp', 'prefix': 'C18/', 'variants': ['g17O0'], 'quick_variants': ['g17O0']}, {'src': 'harness/anyid.cpp', 'prefix': 'C18/', 'variants': ['c17'], 'tier': 'thorough'}],
    'rule': 'complete enumeration: 16 ids built from values of mixed types (int/long/char 0,1,2; strings "", "a", "b", "ab", "1"; an enum; a second instance of an equal value) x digesters {std::hash, 1-bit digester (collisions between every pair of classes), constant digester, a two-word digest whose conversion to size_t is lossy, a std::string digest} x storage {EmptyAnyStorage, type-tagged value with == and <, textual value with == and < (values of different types collapse to equal stored copies)}: all pairs and all triples for reflexivity, symmetry, transitivity of ==, irreflexivity/asymmetry/transitivity of <, transitivity of incomparability, incomparable <=> equal, equal => equal hash, value storage keeps colliding digests distinct, without storage equal <=> digest equal; every (a,b) through EventDispatcher with std::map and std::unordered_map (single key and all keys registered); distinct = distinct (configuration, ==, <, >, digest-equal) patterns observed',
    'assumptions': E_ASSUME,
    'bounds': {'quick': 'all pairs/triples, g++', 'thorough': 'same under g++ and clang++'},
    'technique': 'bounded-exhaustive enumeration of all pairs and triples over a finite value alphabet on the real code',
}


def _split_refcells(props):
    for pid in ('C04', 'C05', 'C20'):
        parts = []
        for part in props[pid]['parts']:
            if part['src'] == 'harness/dispatch.cpp':
                a = dict(part); a['defs'] = list(part.get('defs', [])) + ['VERIF_NO_REFCELLS']
                b = dict(part); b['defs'] = list(part.get('defs', [])) + ['VERIF_ONLY_REFCELLS']
                parts += [a, b]
            else:
                parts.append(part)
        props[pid]['parts'] = parts


def _c20_group(name):
    # C20/<program set>/<policy configuration...>; pool units: C20/pool/<Type>/<threading>/mem<XX>; dispatch cells: the whole name
    parts = name.split('/')
    if parts[0] in ('C04', 'C05'):
        return name
    if len(parts) > 2 and parts[1] == 'pool':
        return '/'.join(parts[:3])
    return '/'.join(parts[:2])


_ALL16 = ['g11', 'g11O0', 'g14', 'g14O2', 'g17', 'g17O0', 'g20', 'g20O0', 'c11', 'c11O2', 'c14', 'c14O0', 'c17', 'c17O2', 'c20', 'c20O0']
_ALL12 = [v for v in _ALL16 if '11' not in v]
_CORNER = ['g11', 'g17O0', 'c11', 'c20']
PROPS['C20'] = {
    'title': 'Behaviour is independent of policies, compiler, standard level, prior memory',
    'level': 'exploration',
    'engine': 'X',
    'parts': [{'src': 'harness/list.cpp', 'prefix': 'C20/', 'variants': _ALL16, 'quick_variants': _CORNER, 'defs': ['VERIF_ONLY=20', 'VERIF_SUB=%d' % i]} for i in range(2)]
           + [{'src': 'harness/queue.cpp', 'prefix': 'C20/', 'variants': _ALL16, 'quick_variants': _CORNER, 'defs': ['VERIF_ONLY=20', 'VERIF_SUB=%d' % i]} for i in range(2)]
           + [{'src': 'harness/pool.cpp', 'prefix': 'C20/', 'variants': _ALL16, 'quick_variants': _CORNER, 'defs': ['VERIF_PREFIX="C20/pool"', 'VERIF_ALLPATTERNS', 'VERIF_SUB=%d' % i]} for i in (0, 2, 5)]
           + [{'src': 'harness/pool.cpp', 'prefix': 'C20/', 'variants': _ALL16, 'tier': 'thorough', 'defs': ['VERIF_PREFIX="C20/pool"', 'VERIF_ALLPATTERNS', 'VERIF_SUB=%d' % i]} for i in (1, 3, 4)]
           + [{'src': 'harness/dispatch.cpp', 'prefix': 'C04/', 'variants': ['g14', 'c14'], 'tier': 'quick', 'defs': ['VERIF_SUB=2', 'VERIF_FULL=0']}]
           + [{'src': 'harness/dispatch.cpp', 'prefix': 'C04/', 'variants': _ALL12, 'tier': 'thorough', 'defs': ['VERIF_SUB=%d' % i, 'VERIF_FULL=0']} for i in range(5)]
           + [{'src': 'harness/dispatch.cpp', 'prefix': 'C05/', 'variants': ['g14', 'c14'], 'tier': 'quick', 'defs': ['VERIF_QUEUE', 'VERIF_SUB=2', 'VERIF_FULL=0']}]
           + [{'src': 'harness/dispatch.cpp', 'prefix': 'C05/', 'variants': _ALL12, 'tier': 'thorough', 'defs': ['VERIF_QUEUE', 'VERIF_SUB=%d' % i, 'VERIF_FULL=0']} for i in (0, 2, 3)],
    'rule': 'configuration product: the generated program sets of C01 (CallbackList/EventDispatcher flat and nested), C04 (dispatch type-matrix cells), C05 (EventQueue flat and nested-consume) and C10 (object pools of 6 container types) are compiled and explored under compilers {g++ 12, clang++ 14} x {-O0/-O1, -O2} x -std={c++11, c++14, c++17, c++20} (C04 cells: c++14 and later) x Threading {SingleThreading, injected V-policy, SpinLock, std::mutex} x Map {std::unordered_map, std::map, user template} x Callback {std::function, comparable functor} x prior memory {0xFF, 0x00, 0xA5}; every configuration must agree with the reference model on every execution AND the hash of the complete observable trace of the whole exploration must be identical for all configurations of a program set; distinct = distinct per-execution observation hashes',
    'assumptions': ['compilers limited to the two installed (libstdc++ only); MSVC-specific paths and the __GNUC__ < 5 variant of CallbackList::operator() are not compiled', 'the uninitialised-state clause is made deterministic by pre-filling object storage with three byte patterns (no MemorySanitizer run: its uninstrumented libstdc++ would raise false reports)'] + H_ASSUME[:1],
    'bounds': {'quick': '4 corner build configurations {g++ c++11 -O2, g++ c++17 -O0, clang++ c++11 -O0, clang++ c++20 -O2} x list/queue/pool program sets (depth 3-5) + std::string dispatch cells under g++/clang++ c++14', 'thorough': 'all 16 build configurations x all program sets (depth 4-6), 12 for the dispatch cells'},
    'technique': 'bounded exhaustive exploration of identical generated programs under a product of build and policy configurations, with cross-configuration comparison of the complete observable trace',
    'cross_config': _c20_group,
    'deadline': {'quick': 300, 'thorough': 2400},
}

_split_refcells(PROPS)
