// Live-instance ledger: every construction, copy, move and destruction of the
// tracked payload / callback types is recorded by object address.
#pragma once
#include "core.h"

namespace verif {

enum TrackClass { TC_PAYLOAD = 0, TC_CALLBACK = 1, TC_KEY = 2, TC_OTHER = 3, TC_COUNT = 4 };

struct Ledger {
	struct Rec { int cls; int id; bool moved; int copyDepth; };
	std::unordered_map<const void *, Rec> live;
	long constructed = 0, destroyed = 0, copies = 0, moves = 0;
	std::vector<std::string> errors;
	std::function<void(int cls, int id, bool movedFrom, int copyDepth)> onDeath;   // observer for destruction times
	// observer for object accesses (0 = constructed, 1 = read, 2 = moved from / destroyed): the Engine S harnesses feed the
	// happens-before race detector with it, so that a payload read outside the lock that orders it with its consumer is reported
	std::function<void(const void * p, int kind)> onObject;

	void reset() { live.clear(); errors.clear(); constructed = destroyed = copies = moves = 0; onDeath = nullptr; onObject = nullptr; }

	void born(const void * p, int cls, int id, bool moved = false, int copyDepth = 0) {
		HarnessScope hs;
		++constructed;
		if(onObject) onObject(p, 0);
		auto it = live.find(p);
		if(it != live.end()) {
			errors.push_back(fmt("object constructed over a live object (class %d id %d over id %d)", cls, id, it->second.id));
			it->second = Rec{cls, id, moved, copyDepth};
			return;
		}
		live.emplace(p, Rec{cls, id, moved, copyDepth});
	}
	void died(const void * p, int cls, int id) {
		HarnessScope hs;
		++destroyed;
		if(onObject) onObject(p, 2);
		auto it = live.find(p);
		if(it == live.end()) { errors.push_back(fmt("destruction of an object that is not alive (class %d id %d): destroyed twice or never constructed", cls, id)); return; }
		bool mv = it->second.moved; int cd = it->second.copyDepth;
		live.erase(it);
		if(onDeath) onDeath(cls, id, mv, cd);
	}
	bool touch(const void * p, int cls, int id) {
		HarnessScope hs;
		if(onObject) onObject(p, 1);
		auto it = live.find(p);
		if(it == live.end()) { errors.push_back(fmt("access to an object after its destruction (class %d id %d)", cls, id)); return false; }
		return true;
	}
	void setMoved(const void * p) { if(onObject) onObject(p, 2); auto it = live.find(p); if(it != live.end()) it->second.moved = true; }

	int liveCount(int cls, int id) const {
		int n = 0;
		for(auto & kv : live) if(kv.second.cls == cls && kv.second.id == id && !kv.second.moved) ++n;
		return n;
	}
	int liveTotal(int cls, bool includeMoved = true) const {
		int n = 0;
		for(auto & kv : live) if(kv.second.cls == cls && (includeMoved || !kv.second.moved)) ++n;
		return n;
	}
	int liveAll() const { return (int)live.size(); }
	std::string describeLive() const {
		std::string s;
		for(auto & kv : live) s += fmt("[class %d id %d%s]", kv.second.cls, kv.second.id, kv.second.moved ? " moved-from" : "");
		return s;
	}
};

inline Ledger & ledger() { static Ledger l; return l; }

// Base for tracked value types. Value semantics: copies keep the id, a move
// transfers the id and leaves the source "moved-from" (id kept for diagnostics).
template <int Cls>
struct TrackedBase {
	int id;
	bool movedFrom;
	int copyDepth;     // 0 for the original and everything reached from it by moves; +1 per copy
	explicit TrackedBase(int id_ = 0) : id(id_), movedFrom(false), copyDepth(0) { ledger().born(this, Cls, id); }
	TrackedBase(const TrackedBase & o) : id(o.id), movedFrom(o.movedFrom), copyDepth(o.copyDepth + 1) {
		ledger().touch(&o, Cls, o.id); ++ledger().copies; ledger().born(this, Cls, id, movedFrom, copyDepth);
	}
	TrackedBase(TrackedBase && o) noexcept : id(o.id), movedFrom(o.movedFrom), copyDepth(o.copyDepth) {
		ledger().touch(&o, Cls, o.id); ++ledger().moves; ledger().born(this, Cls, id, movedFrom, copyDepth);
		o.movedFrom = true; ledger().setMoved(&o);
	}
	TrackedBase & operator=(const TrackedBase & o) {
		ledger().touch(&o, Cls, o.id); ledger().touch(this, Cls, id);
		if(this != &o) { ++ledger().copies; id = o.id; movedFrom = o.movedFrom; copyDepth = o.copyDepth + 1; auto it = ledger().live.find(this); if(it != ledger().live.end()) { it->second.id = id; it->second.moved = movedFrom; it->second.copyDepth = copyDepth; } }
		return *this;
	}
	TrackedBase & operator=(TrackedBase && o) noexcept {
		ledger().touch(&o, Cls, o.id); ledger().touch(this, Cls, id);
		if(this != &o) {
			++ledger().moves; id = o.id; movedFrom = o.movedFrom; copyDepth = o.copyDepth;
			auto it = ledger().live.find(this); if(it != ledger().live.end()) { it->second.id = id; it->second.moved = movedFrom; it->second.copyDepth = copyDepth; }
			o.movedFrom = true; ledger().setMoved(&o);
		}
		return *this;
	}
	~TrackedBase() { ledger().died(this, Cls, id); }
	bool alive() const { return ledger().touch(this, Cls, id); }
};

// Payload carried as an event argument. `value` is derived from id so that a
// byte-level mix-up shows as a value mismatch.
struct Tracked : TrackedBase<TC_PAYLOAD> {
	long value;
	explicit Tracked(int id_ = 0) : TrackedBase<TC_PAYLOAD>(id_), value(id_ * 1000003L + 17) {}
	Tracked(const Tracked &) = default;
	Tracked(Tracked && o) noexcept : TrackedBase<TC_PAYLOAD>(std::move(o)), value(o.value) { o.value = -1; }
	Tracked & operator=(const Tracked &) = default;
	Tracked & operator=(Tracked && o) noexcept { TrackedBase<TC_PAYLOAD>::operator=(std::move(o)); value = o.value; if(this != &o) o.value = -1; return *this; }
	bool intact() const { return alive() && !movedFrom && value == id * 1000003L + 17; }
};

// flush ledger errors into the context as violations
inline void checkLedgerErrors(Ctx & ctx, const char * where) {
	Ledger & l = ledger();
	if(!l.errors.empty()) {
		ctx.fail("ledger-misuse", std::string(where) + ": " + l.errors[0]);
		l.errors.clear();
	}
}

} // namespace verif
