// Engine S: preemption-bounded cooperative scheduler over real threads, plus the
// injectable Threading / QueueList / Map policies (VMutex, VAtomic, VCondVar,
// VList, VMap), a vector-clock happens-before race detector for the policy
// containers, and the EVENTPP_VERIF_POINT / _SPIN hook entry points.
//
// With the scheduler inactive (sequential Engine H runs) the same policies do
// ownership checking only: a nested lock by the owner is reported at once as a
// self-deadlock instead of hanging.
#pragma once
#include "core.h"
#include "ledger.h"
#include <list>
#include <map>
#include <memory>
#include <semaphore.h>
#include <cerrno>
#include <thread>
#include <unordered_map>
#include <unordered_set>
#include <chrono>
#include <mutex>
#include <condition_variable>

namespace verif {

struct SchedAbort {};
inline void semWait(sem_t * s) { while(sem_wait(s) == -1 && errno == EINTR) {} }   // the watchdog's SIGALRM must not wake a parked thread   // unwinds threads that are blocked when an execution ends in deadlock

enum TState { T_RUNNABLE, T_WAIT_MUTEX, T_WAIT_CV, T_WAIT_CV_TIMED, T_WAIT_JOIN, T_SPIN, T_DONE };
enum { MAXT = 6 };

struct VClock {
	int c[MAXT];
	VClock() { for(int i = 0; i < MAXT; ++i) c[i] = 0; }
	void join(const VClock & o) { for(int i = 0; i < MAXT; ++i) if(o.c[i] > c[i]) c[i] = o.c[i]; }
	bool leq(const VClock & o) const { for(int i = 0; i < MAXT; ++i) if(c[i] > o.c[i]) return false; return true; }
};

struct VThread {
	int id;
	TState st;
	const void * waitObj;
	sem_t sem;
	bool timedOut;
	bool spurious;
	uint64_t obs;          // hash of everything this thread observed from shared state since its current operation began
	int opIndex;
	long spinStamp;
	VClock vc;
	std::function<void()> body;
	const char * lastTag;
	std::vector<const void *> held;   // mutexes / spin locks this thread holds, in acquisition order
	VClock startVc;                   // clock inherited when the thread was spawned
};

struct Worker {
	std::thread th;
	sem_t go, done;
	VThread * assigned;
	bool busy;
};

struct DeadlockInfo {
	bool happened;
	std::vector<int> blockedIds;
	std::vector<TState> blockedStates;
	DeadlockInfo() : happened(false) {}
};

class Sched {
public:
	bool active;
	bool aborting;
	int cur;
	long steps;            // logical time: number of scheduling points passed
	long progress;         // points passed by non-spinning operations
	long maxSteps;
	std::vector<VThread *> threads;
	std::vector<Worker *> pool;    // parked OS threads reused across executions (thread creation dominates otherwise)
	DeadlockInfo deadlock;
	bool horizonHit;
	int preemptions;
	// stateful exploration: visited global states (hash supplied by the harness) prune the DFS; sound only for oracles that are
	// functions of the state, and only with an unbounded budget (every alternative of a first visit is explored)
	bool stateful;
	std::function<void(uint64_t &, uint64_t &)> stateHash;
	// optional: hash of ALL shared state the threads can read outside the injected policies. Mixed into a thread's observation
	// hash every time it starts an atomic block: a deterministic thread's local state after a block is a function of its local
	// state before and the shared state during the block.
	std::function<uint64_t()> sharedHash;
	std::unordered_set<uint64_t> * visitedA; std::unordered_set<uint64_t> * visitedB;
	bool pruned;
	bool quiet;             // after a prune: no new choices, defaults only
	long prunedCount;
	int spuriousBudget;      // >0: a thread parked in an untimed condition wait may be woken without a notify (each is a deviation of cost 1)
	int spuriousUsed;
	// happens-before race detection on annotated locations
	struct Loc { VClock lastWrite; int lastWriter; VClock reads; const char * wtag; };
	std::unordered_map<const void *, Loc> locs;
	std::unordered_map<const void *, VClock> spinClocks;
	std::vector<std::pair<const char *, const char *> > sharedRanges;
	const char * ignoreTagPrefix = nullptr;   // hook points whose tag starts like this are not scheduling points (see harness/sheter.cpp)
	bool raceDetection;

	Sched() : active(false), aborting(false), cur(0), steps(0), progress(0), maxSteps(4000), horizonHit(false), preemptions(0), stateful(false), visitedA(nullptr), visitedB(nullptr), pruned(false), quiet(false), prunedCount(0), spuriousBudget(0), spuriousUsed(0), raceDetection(true) {}

	static VThread *& me() { static thread_local VThread * t = nullptr; return t; }

	void addSharedRange(const void * p, size_t n) { sharedRanges.push_back(std::make_pair((const char *)p, (const char *)p + n)); }
	bool isShared(const void * p) const {
		for(size_t i = 0; i < sharedRanges.size(); ++i) if((const char *)p >= sharedRanges[i].first && (const char *)p < sharedRanges[i].second) return true;
		return false;
	}

	// ---- lifecycle (called on the harness's main thread, which becomes thread 0)
	void begin() {
		for(size_t i = 0; i < threads.size(); ++i) { sem_destroy(&threads[i]->sem); delete threads[i]; }
		threads.clear(); locs.clear(); spinClocks.clear(); sharedRanges.clear(); lockEdges.clear();
		active = true; aborting = false; steps = 0; progress = 0; horizonHit = false; preemptions = 0; spuriousUsed = 0; pruned = false; quiet = false;
		deadlock = DeadlockInfo();
		VThread * t0 = new VThread();
		t0->id = 0; t0->st = T_RUNNABLE; t0->waitObj = nullptr; t0->timedOut = false; t0->spurious = false; t0->obs = 0; t0->opIndex = 0; t0->spinStamp = -1; t0->lastTag = "";
		sem_init(&t0->sem, 0, 0);
		threads.push_back(t0);
		me() = t0; cur = 0;
	}

	int spawn(const std::function<void()> & body) {
		VThread * t = new VThread();
		t->id = (int)threads.size();
		if(t->id >= MAXT) { fprintf(stderr, "too many threads\n"); abort(); }
		t->st = T_RUNNABLE; t->waitObj = nullptr; t->timedOut = false; t->spurious = false; t->obs = 0; t->opIndex = 0; t->spinStamp = -1; t->lastTag = "";
		t->body = body;
		sem_init(&t->sem, 0, 0);
		VThread * parent = me();
		parent->vc.c[parent->id]++;
		t->vc = parent->vc; t->startVc = parent->vc;
		threads.push_back(t);
		size_t wi = (size_t)t->id - 1;
		while(pool.size() <= wi) {
			Worker * w = new Worker();
			sem_init(&w->go, 0, 0); sem_init(&w->done, 0, 0); w->assigned = nullptr; w->busy = false;
			w->th = std::thread([this, w]() { for(;;) { semWait(&w->go); threadMain(w->assigned); sem_post(&w->done); } });
			w->th.detach();
			pool.push_back(w);
		}
		pool[wi]->assigned = t; pool[wi]->busy = true;
		sem_post(&pool[wi]->go);
		return t->id;
	}

	// thread 0 blocks until all other threads are done. Throws SchedAbort on deadlock.
	void joinAll() {
		VThread * m = me();
		m->st = T_WAIT_JOIN;
		switchFrom(m, "join");
		m->st = T_RUNNABLE;
		for(size_t i = 1; i < threads.size(); ++i) m->vc.join(threads[i]->vc);
	}

	// must be called on thread 0 after the execution ended (normally or by SchedAbort)
	void end() {
		for(size_t i = 0; i < pool.size(); ++i) if(pool[i]->busy) { semWait(&pool[i]->done); pool[i]->busy = false; }
		active = false; aborting = false;
		me() = nullptr;
	}

	// ---- scheduling points
	void point(const char * tag) {
		if(!active || aborting) return;
		VThread * m = me();
		if(!m) return;
		m->st = T_RUNNABLE;
		++progress;
		m->obs = mix64(m->obs, (uint64_t)(uintptr_t)tag);
		switchFrom(m, tag);
	}

	void spin(const char * tag) {
		if(aborting) throw SchedAbort{};
		VThread * m = me();
		if(!active || !m) {
			gctx()->fail("self-deadlock", std::string("spin lock spins forever: the lock is held and no other thread exists (") + tag + ")");
			throw Stop{};
		}
		m->st = T_SPIN; m->spinStamp = progress;
		switchFrom(m, tag);
		m->st = T_RUNNABLE;
	}

	bool enabled(VThread * t) const;
	void switchFrom(VThread * m, const char * tag);
	void threadMain(VThread * t);
	void abortNext();

	// ---- race detection (locations are arbitrary addresses)
	void access(const void * loc, bool write, const char * tag) {
		if(!active || aborting || !raceDetection) return;
		VThread * m = me();
		if(!m) return;
		Loc & l = locs[loc];
		if(l.wtag == nullptr) { l.lastWriter = -1; l.wtag = ""; }
		bool race = false; const char * other = "";
		if(l.lastWriter >= 0 && l.lastWriter != m->id && !l.lastWrite.leq(m->vc)) { race = true; other = l.wtag; }
		if(write && !race) {
			for(int i = 0; i < MAXT; ++i) if(i != m->id && l.reads.c[i] > m->vc.c[i]) { race = true; other = "read"; }
		}
		if(race) gctx()->fail("data-race", std::string("unsynchronised conflicting accesses to a shared container or object: ") + tag + " vs earlier " + other);
		if(write) { l.lastWrite = m->vc; l.lastWriter = m->id; l.wtag = tag; l.reads = VClock(); }
		else { l.reads.c[m->id] = m->vc.c[m->id]; }
	}
	// ---- lock-order graph of the running execution (edge: "b was acquired while a was held", with who did it and what else
	// was held). Two threads acquiring the same two locks in opposite orders, with no common lock held around both and no
	// happens-before order between the two critical sections, can deadlock in another schedule of the same execution.
	struct LockEdge { const void * a, * b; int thread; std::vector<const void *> heldToo; VClock when; VClock doneWith; bool open; };
	std::vector<LockEdge> lockEdges;
	void lockAcquired(const void * m) {
		VThread * t = me();
		if(!t || !active || aborting) return;
		for(const void * h : t->held) {
			if(h == m) continue;
			for(const LockEdge & e : lockEdges) {
				if(e.a != m || e.b != h || e.thread == t->id) continue;
				bool gate = false; for(const void * g : e.heldToo) for(const void * g2 : t->held) if(g == g2 && g != h && g != m) gate = true;
				// ordered: the other critical section was over before this thread even started (orders that arise from handing over the
				// very locks in question do not count: they are what another schedule changes)
				bool ordered = !e.open && e.doneWith.leq(t->startVc);
				if(!gate && !ordered) { gctx()->fail("lock-order-inversion", "two threads take the same two locks in opposite orders (a deadlock in another schedule of this execution)"); break; }
			}
			LockEdge ne; ne.a = h; ne.b = m; ne.thread = t->id; ne.heldToo = t->held; ne.when = t->vc; ne.open = true;
			lockEdges.push_back(ne);
		}
		t->held.push_back(m);
	}
	void lockReleased(const void * m) {
		VThread * t = me();
		if(!t || !active) return;
		for(size_t i = t->held.size(); i-- > 0; ) if(t->held[i] == m) { t->held.erase(t->held.begin() + i); break; }
		for(LockEdge & e : lockEdges) if(e.thread == t->id && e.open && (e.a == m || e.b == m)) { e.open = false; e.doneWith = t->vc; }
	}
	void forgetLoc(const void * loc) { locs.erase(loc); }   // a new object at a reused address has no access history
	void tick() { VThread * m = me(); if(m) m->vc.c[m->id]++; }
	// what a thread learns from shared state; together with the operation index it determines the thread's local state
	void observe(uint64_t v) { VThread * m = me(); if(m && active) m->obs = mix64(m->obs, v); }
	void opBegin(int index) { VThread * m = me(); if(m) { m->opIndex = index; m->obs = 0x9e3779b97f4a7c15ULL; } }
	uint64_t threadsHash() const {
		uint64_t h = 7;
		for(size_t i = 0; i < threads.size(); ++i) { const VThread * t = threads[i]; h = mix64(h, (uint64_t)t->st * 131 + (t->timedOut ? 7 : 0) + (t->spurious ? 3 : 0)); h = mix64(h, (uint64_t)t->opIndex); h = mix64(h, t->st == T_DONE ? 0 : t->obs); }
		return h;
	}
};

inline Sched & sched() { static Sched s; return s; }

// feeds the race detector with the life of tracked objects (see Ledger::onObject); call after ledger().reset()
inline void trackObjectsForRaces() {
	ledger().onObject = [](const void * p, int kind) {
		Sched & s = sched();
		if(kind == 0) s.forgetLoc(p);
		s.access(p, kind != 1, kind == 0 ? "object.construct" : kind == 1 ? "object.read" : "object.move-from-or-destroy");
	};
}

inline bool Sched::enabled(VThread * t) const {
	switch(t->st) {
	case T_RUNNABLE: return true;
	case T_WAIT_MUTEX: case T_WAIT_CV_TIMED: return *(const int *)t->waitObj < 0;   // waitObj points at the mutex's owner field
	case T_WAIT_CV: return false;
	case T_WAIT_JOIN:
		for(size_t i = 1; i < threads.size(); ++i) if(threads[i]->st != T_DONE) return false;
		return true;
	case T_SPIN: return progress > t->spinStamp;
	case T_DONE: return false;
	}
	return false;
}

inline void Sched::abortNext() {
	// wake the next thread that still has to unwind; thread 0 last
	for(size_t i = 1; i < threads.size(); ++i) if(threads[i]->st != T_DONE) { sem_post(&threads[i]->sem); return; }
	if(threads[0]->st != T_DONE) sem_post(&threads[0]->sem);
}

inline void Sched::switchFrom(VThread * m, const char * tag) {
	if(aborting) { if(m->st != T_DONE) throw SchedAbort{}; return; }
	m->lastTag = tag;
	++steps;
	m->vc.c[m->id]++;
	if(steps > maxSteps && !horizonHit) {
		horizonHit = true;
		gctx()->fail("step-horizon", fmt("execution exceeded %ld scheduling points (livelock or unbounded loop) at %s", maxSteps, tag));
	}
	// menu: the running thread first if it can continue, then the other runnable threads by id,
	// then timeouts of timed waiters
	VThread * opts[2 * MAXT]; bool isTimeout[2 * MAXT]; int n = 0;
	bool meEnabled = (m->st != T_DONE) && m->st != T_WAIT_CV_TIMED && enabled(m);
	if(horizonHit) meEnabled = false;
	if(meEnabled) { opts[n] = m; isTimeout[n] = false; ++n; }
	if(!horizonHit) {
		for(size_t i = 0; i < threads.size(); ++i) {
			VThread * t = threads[i];
			if(t == m || t->st == T_DONE || t->st == T_WAIT_CV_TIMED) continue;
			if(enabled(t)) { opts[n] = t; isTimeout[n] = false; ++n; }
		}
	}
	int plain = n;
	if(!horizonHit) {
		for(size_t i = 0; i < threads.size(); ++i) {
			VThread * t = threads[i];
			if(t->st == T_WAIT_CV_TIMED && enabled(t)) { opts[n] = t; isTimeout[n] = true; ++n; }
		}
	}
	// spurious wake-ups (always a deviation): an untimed waiter returns from the wait although nobody notified it
	int realOptions = n;
	if(!horizonHit && spuriousUsed < spuriousBudget && n > 0) {
		for(size_t i = 0; i < threads.size(); ++i) {
			VThread * t = threads[i];
			if(t->st == T_WAIT_CV && t != m && *(const int *)t->waitObj < 0 && n < 2 * MAXT) { opts[n] = t; isTimeout[n] = false; ++n; }
		}
	}
	if(n == 0) {
		// nobody can run
		bool allDone = true;
		for(size_t i = 0; i < threads.size(); ++i) if(threads[i]->st != T_DONE) allDone = false;
		if(allDone) return;   // last thread finishing (cannot happen: thread 0 joins) — nothing to do
		deadlock.happened = !horizonHit;
		for(size_t i = 0; i < threads.size(); ++i) if(threads[i]->st != T_DONE) { deadlock.blockedIds.push_back(threads[i]->id); deadlock.blockedStates.push_back(threads[i]->st); }
		if(gctx()->wantLog()) gctx()->log(fmt("-- no thread can run (%s)", horizonHit ? "horizon" : "deadlock"));
		aborting = true;
		if(m->st == T_DONE) { abortNext(); return; }
		if(m->id != 0) throw SchedAbort{};          // unwinds; threadMain continues the chain
		// thread 0 detected it: let the others unwind first
		bool others = false;
		for(size_t i = 1; i < threads.size(); ++i) if(threads[i]->st != T_DONE) others = true;
		if(others) { abortNext(); semWait(&m->sem); }
		throw SchedAbort{};
	}
	int freeUpTo;
	if(meEnabled) freeUpTo = 1;                    // leaving a thread that could continue is a preemption
	else if(plain > 0) freeUpTo = plain;           // free choice among runnable threads; firing a timeout while something can run is a deviation
	else freeUpTo = n;                             // only timeouts left: time passes
	if(freeUpTo > realOptions) freeUpTo = realOptions;
	if(stateful && !quiet && n > 1 && gctx()->ex.atFrontier() && stateHash) {
		uint64_t ha = 0, hb = 0;
		stateHash(ha, hb);
		ha = mix64(ha, (uint64_t)m->id); hb = mix64(hb, (uint64_t)m->id * 977 + 5);   // who is asking matters for the menu order only, kept for simplicity
		bool seenA = !visitedA->insert(ha).second, seenB = !visitedB->insert(hb).second;
		if(seenA && seenB) {
			// This global state was expanded before: every continuation from here is, or will be, explored from that visit.
			// The execution is not torn down by exceptions (parked threads may sit inside destructors or noexcept operations);
			// it simply runs to its end on default choices without opening new branches, and its outcome is not judged again.
			pruned = true; quiet = true; ++prunedCount;
		}
	}
	int pick = quiet ? 0 : gctx()->ex.choose(n, freeUpTo, K_SCHED);
	if(pick >= freeUpTo) ++preemptions;
	VThread * next = opts[pick];
	if(isTimeout[pick]) next->timedOut = true;
	if(pick >= realOptions) { ++spuriousUsed; next->spurious = true; if(gctx()->wantLog()) gctx()->log(fmt("-- spurious wake-up of T%d", next->id)); }
	if(gctx()->wantLog() && (next != m)) gctx()->log(fmt("-- switch T%d -> T%d%s at %s", m->id, next->id, isTimeout[pick] ? " (timeout fires)" : "", tag));
	if(next == m) { if(sharedHash && stateful) m->obs = mix64(m->obs, sharedHash()); return; }
	cur = next->id;
	sem_post(&next->sem);
	if(m->st == T_DONE) return;
	semWait(&m->sem);
	if(aborting) throw SchedAbort{};
	if(sharedHash && stateful) m->obs = mix64(m->obs, sharedHash());
}

inline void Sched::threadMain(VThread * t) {
	me() = t;
	semWait(&t->sem);
	if(!aborting && sharedHash && stateful) t->obs = mix64(t->obs, sharedHash());
	if(!aborting) {
		try { t->body(); }
		catch(SchedAbort &) {}
		catch(Stop &) {}
	}
	t->st = T_DONE;
	if(aborting) { abortNext(); return; }
	try { switchFrom(t, "thread-exit"); }
	catch(SchedAbort &) {}
}

// ------------------------------------------------------------------ policies
struct VMutex {
	int owner;          // -1 free; must be the first member (Sched::enabled reads it through waitObj)
	VClock vc;
	VMutex() : owner(-1) {}
	VMutex(const VMutex &) = delete;
	VMutex & operator=(const VMutex &) = delete;

	void lock() {
		Sched & s = sched();
		VThread * m = Sched::me();
		if(s.aborting) { owner = m ? m->id : 0; return; }
		if(!s.active || !m) {
			if(owner >= 0) {
				gctx()->fail("self-deadlock", "a mutex is locked again by the thread that already holds it");
				throw Stop{};
			}
			owner = 0;
			return;
		}
		if(owner == m->id) {
			gctx()->fail("self-deadlock", "a mutex is locked again by the thread that already holds it");
			throw SchedAbort{};
		}
		m->st = T_WAIT_MUTEX; m->waitObj = &owner;
		++s.progress;
		s.switchFrom(m, "mutex.lock");
		owner = m->id; m->st = T_RUNNABLE;
		m->vc.join(vc);
		s.lockAcquired(this);
		s.observe(0x4c4f434bULL);
	}
	bool try_lock() {
		Sched & s = sched();
		VThread * m = Sched::me();
		if(s.active && m && !s.aborting) s.point("mutex.try_lock");
		if(owner >= 0) return false;
		owner = m ? m->id : 0;
		if(m) { m->vc.join(vc); s.lockAcquired(this); }
		return true;
	}
	void unlock() {
		VThread * m = Sched::me();
		if(m) { sched().lockReleased(this); vc.join(m->vc); m->vc.c[m->id]++; }
		owner = -1;
	}
};

template <typename T>
struct VAtomic {
	T value;
	VClock vc;
	VAtomic() noexcept {}   // like std::atomic before C++20: the value is left uninitialised
	VAtomic(T v) noexcept : value(v), vc() {}
	VAtomic(const VAtomic &) = delete;

	void pre(const char * tag) const { sched().point(tag); }
	void acq() const { VThread * m = Sched::me(); if(m && sched().active) m->vc.join(vc); }
	void rel() { VThread * m = Sched::me(); if(m && sched().active) { vc.join(m->vc); m->vc.c[m->id]++; } }

	void store(T d, std::memory_order = std::memory_order_seq_cst) noexcept { pre("atomic.store"); value = d; rel(); sched().observe(5); }
	T load(std::memory_order = std::memory_order_seq_cst) const noexcept { pre("atomic.load"); acq(); sched().observe((uint64_t)value * 31 + 1); return value; }
	T exchange(T d, std::memory_order = std::memory_order_seq_cst) noexcept { pre("atomic.exchange"); acq(); T p = value; value = d; rel(); sched().observe((uint64_t)p * 31 + 2); return p; }
	T operator++() noexcept { pre("atomic.inc"); acq(); T r = ++value; rel(); sched().observe((uint64_t)r * 31 + 3); return r; }
	T operator--() noexcept { pre("atomic.dec"); acq(); T r = --value; rel(); sched().observe((uint64_t)r * 31 + 4); return r; }
	T operator=(T d) noexcept { store(d); return d; }
	operator T() const noexcept { return load(); }
};

struct VCondVar {
	std::vector<VThread *> waiters;
	long notifies, waits;
	VCondVar() : notifies(0), waits(0) {}

	void notify_one() noexcept {
		Sched & s = sched();
		VThread * m = Sched::me();
		if(!s.active || !m || s.aborting) return;
		s.point("cv.notify_one");
		++notifies;
		if(waiters.empty()) return;
		int w = s.quiet ? 0 : gctx()->ex.choose((int)waiters.size(), (int)waiters.size(), K_ENV);
		VThread * t = waiters[w];
		waiters.erase(waiters.begin() + w);
		t->st = T_WAIT_MUTEX;     // waitObj already points at the mutex owner field
		t->vc.join(m->vc);
	}
	void notify_all() noexcept {
		Sched & s = sched();
		VThread * m = Sched::me();
		if(!s.active || !m || s.aborting) return;
		s.point("cv.notify_all");
		for(size_t i = 0; i < waiters.size(); ++i) { waiters[i]->st = T_WAIT_MUTEX; waiters[i]->vc.join(m->vc); }
		waiters.clear();
	}

	// returns true if it ended by timeout
	bool block(std::unique_lock<VMutex> & lock, bool timed) {
		Sched & s = sched();
		VThread * m = Sched::me();
		VMutex * mx = lock.mutex();
		if(s.aborting) throw SchedAbort{};
		++waits;
		// the waiter can be preempted between evaluating its predicate and parking (it still holds the mutex)
		s.point("cv.before-park");
		mx->unlock();
		m->st = timed ? T_WAIT_CV_TIMED : T_WAIT_CV;
		m->waitObj = &mx->owner;
		m->timedOut = false; m->spurious = false;
		waiters.push_back(m);
		++s.progress;
		try { s.switchFrom(m, timed ? "cv.wait_for" : "cv.wait"); }
		catch(SchedAbort &) {
			// the unique_lock will unlock on unwinding: make that consistent
			mx->owner = m->id;
			for(size_t i = 0; i < waiters.size(); ++i) if(waiters[i] == m) { waiters.erase(waiters.begin() + i); break; }
			throw;
		}
		bool to = m->timedOut;
		if(to || m->spurious) { for(size_t i = 0; i < waiters.size(); ++i) if(waiters[i] == m) { waiters.erase(waiters.begin() + i); break; } }
		m->spurious = false;
		mx->owner = m->id; m->st = T_RUNNABLE; m->vc.join(mx->vc);
		s.observe(to ? 0x544fULL : 0x4e4fULL);
		return to;
	}

	// non-predicate forms (not used by the pinned tree; provided so that a change to them still builds and is judged)
	void wait(std::unique_lock<VMutex> & lock) {
		Sched & s = sched();
		if(!s.active || !Sched::me()) { gctx()->fail("blocks-forever", "wait() without predicate called in a sequential run: it can never return"); throw Stop{}; }
		block(lock, false);
	}
	template <class Rep, class Period>
	std::cv_status wait_for(std::unique_lock<VMutex> & lock, const std::chrono::duration<Rep, Period> & d) {
		Sched & s = sched();
		if(!s.active || !Sched::me() || d <= d.zero()) return std::cv_status::timeout;
		return block(lock, true) ? std::cv_status::timeout : std::cv_status::no_timeout;
	}
	template <class Pred>
	void wait(std::unique_lock<VMutex> & lock, Pred pred) {
		Sched & s = sched();
		if(!s.active || !Sched::me()) {
			if(!pred()) { gctx()->fail("blocks-forever", "wait() called in a state where it can never return (sequential run)"); throw Stop{}; }
			return;
		}
		while(!pred()) block(lock, false);
	}
	template <class Rep, class Period, class Pred>
	bool wait_for(std::unique_lock<VMutex> & lock, const std::chrono::duration<Rep, Period> & d, Pred pred) {
		Sched & s = sched();
		if(!s.active || !Sched::me() || d <= d.zero()) return pred();
		while(!pred()) {
			if(block(lock, true)) return pred();
		}
		return true;
	}
};

struct VThreading {
	using Mutex = VMutex;
	template <typename T> using Atomic = VAtomic<T>;
	using ConditionVariable = VCondVar;
};

// ---- QueueList policy: std::list with scheduling points and race detection on shared instances
template <typename T> struct VListItemHash { static uint64_t of(const T &) { return 1; } };   // specialise to expose element identity

template <typename T>
class VList {
	std::list<T> l;
	uint64_t contentHash() const { uint64_t h = 11; for(const T & x : l) h = mix64(h, VListItemHash<T>::of(x)); return h; }
	void obs(uint64_t v) const { if(sched().active) sched().observe(v); }
	bool sh() const { return sched().active && sched().isShared(this); }
	void rd(const char * tag) const { if(sh()) { sched().point(tag); sched().access(this, false, tag); } }
	void wr(const char * tag) { if(sh()) { sched().point(tag); sched().access(this, true, tag); } }
	void wrNoPoint(const char * tag) { if(sh()) sched().access(this, true, tag); }
public:
	using iterator = typename std::list<T>::iterator;
	using const_iterator = typename std::list<T>::const_iterator;
	using value_type = T;
	VList() {}
	VList(VList && o) noexcept : l() { o.wr("list.move-from"); if(o.sh()) obs(o.contentHash()); l = std::move(o.l); }
	VList & operator=(VList && o) noexcept { wr("list.move-assign"); o.wrNoPoint("list.move-from"); l = std::move(o.l); return *this; }
	VList(const VList &) = delete;
	VList & operator=(const VList &) = delete;
	// the documented deliberate unlocked read: a point, but not a race candidate
	bool empty() const { if(sh()) sched().point("list.empty"); if(sh()) obs(l.empty() ? 0x45ULL : 0x4eULL); return l.empty(); }
	iterator begin() { rd("list.begin"); return l.begin(); }
	iterator end() { return l.end(); }
	const_iterator begin() const { rd("list.begin"); return l.begin(); }
	const_iterator end() const { return l.end(); }
	T & front() { rd("list.front"); if(sh()) obs(VListItemHash<T>::of(l.front())); return l.front(); }
	const T & front() const { rd("list.front"); if(sh()) obs(VListItemHash<T>::of(l.front())); return l.front(); }
	template <typename ...A> void emplace_back(A && ...a) { wr("list.emplace_back"); l.emplace_back(std::forward<A>(a)...); }
	void splice(const_iterator pos, VList & other) { wr("list.splice"); other.wrNoPoint("list.splice-from"); l.splice(pos, other.l); }
	void splice(const_iterator pos, VList & other, const_iterator it) { wr("list.splice1"); other.wrNoPoint("list.splice1-from"); if(other.sh()) obs(VListItemHash<T>::of(*it)); l.splice(pos, other.l, it); }
	void swap(VList & o) { wr("list.swap"); o.wrNoPoint("list.swap"); l.swap(o.l); }
	size_t rawSize() const { return l.size(); }
	uint64_t rawContentHash() const { return contentHash(); }
	const std::list<T> & raw() const { return l; }
};

// ---- Map policy
template <typename Base>
class VMapT {
	Base m;
	bool sh() const { return sched().active && sched().isShared(this); }
	void rd(const char * tag) const { if(sh()) { sched().point(tag); sched().access(this, false, tag); } }
	void wr(const char * tag) { if(sh()) { sched().point(tag); sched().access(this, true, tag); } }
public:
	using iterator = typename Base::iterator;
	using const_iterator = typename Base::const_iterator;
	using key_type = typename Base::key_type;
	using mapped_type = typename Base::mapped_type;
	VMapT() {}
	VMapT(const VMapT & o) : m(o.m) {}
	VMapT(VMapT && o) noexcept : m(std::move(o.m)) {}
	VMapT & operator=(const VMapT & o) { m = o.m; return *this; }
	VMapT & operator=(VMapT && o) noexcept { m = std::move(o.m); return *this; }
	mapped_type & operator[](const key_type & k) {
		// inserting is a write; a pure lookup of an existing key is a read
		if(m.find(k) == m.end()) wr("map.insert"); else rd("map.index");
		return m[k];
	}
	iterator find(const key_type & k) { rd("map.find"); return m.find(k); }
	const_iterator find(const key_type & k) const { rd("map.find"); return m.find(k); }
	iterator end() { return m.end(); }
	const_iterator end() const { return m.end(); }
	iterator begin() { return m.begin(); }
	const_iterator begin() const { return m.begin(); }
	size_t size() const { return m.size(); }
	// the rest of the std map interface a dispatcher might use (the pinned library uses none of it): removals and insertions are writes
	iterator erase(iterator it) { wr("map.erase"); return m.erase(it); }
	iterator erase(const_iterator it) { wr("map.erase"); return m.erase(it); }
	size_t erase(const key_type & k) { wr("map.erase"); return m.erase(k); }
	void clear() { wr("map.clear"); m.clear(); }
	bool empty() const { rd("map.empty"); return m.empty(); }
	size_t count(const key_type & k) const { rd("map.count"); return m.count(k); }
	template <typename ...A> std::pair<iterator, bool> emplace(A && ...a) { wr("map.emplace"); return m.emplace(std::forward<A>(a)...); }
	template <typename P> std::pair<iterator, bool> insert(P && v) { wr("map.insert"); return m.insert(std::forward<P>(v)); }
	mapped_type & at(const key_type & k) { rd("map.at"); return m.at(k); }
	const mapped_type & at(const key_type & k) const { rd("map.at"); return m.at(k); }
	friend void swap(VMapT & a, VMapT & b) noexcept { using std::swap; swap(a.m, b.m); }
	const Base & raw() const { return m; }
};
template <typename K, typename V> using VOrderedMap = VMapT<std::map<K, V> >;
template <typename K, typename V> using VHashMap = VMapT<std::unordered_map<K, V> >;

} // namespace verif

// hook entry points called by the EVENTPP_VERIF_POINT / _SPIN macros in eventpp
#ifdef VERIF_DEFINE_HOOKS
extern "C" void eventpp_verif_point(const char * tag, const void * obj) {
	verif::Sched & s = verif::sched();
	if(tag[0] == 's' && strncmp(tag, "spinlock.", 9) == 0) {
		// SpinLock is a mutex for the happens-before relation; only the attempt to lock is a scheduling point
		verif::VThread * m = verif::Sched::me();
		if(!s.active || s.aborting || !m) return;
		if(tag[9] == 'l') s.point(tag);
		else if(tag[9] == 'a') { m->vc.join(s.spinClocks[obj]); s.lockAcquired(obj); }
		else { s.lockReleased(obj); s.spinClocks[obj].join(m->vc); m->vc.c[m->id]++; ++s.progress; }
		return;
	}
	if(s.ignoreTagPrefix && strncmp(tag, s.ignoreTagPrefix, strlen(s.ignoreTagPrefix)) == 0) return;
	s.point(tag);
}
extern "C" void eventpp_verif_spin(const char * tag, const void *) { verif::sched().spin(tag); }
#endif
