// verif framework core: choice-tree explorer (stateless DFS with cost bound),
// explicit-state BFS over histories replayed on fresh real objects, violation
// recording, breadcrumbs for crash isolation, unit registry and main().
//
// Everything nondeterministic in a harness goes through Explorer::choose().
// An execution is fully determined by its choice sequence.
#pragma once
#include <algorithm>
#include <chrono>
#include <csignal>
#include <sys/prctl.h>
#include <dlfcn.h>
#include <pthread.h>
#include <time.h>
#include <errno.h>
#include <cstdarg>
#include <cstdint>
#include <cstdio>
#include <cstdlib>
#include <cstring>
#include <fcntl.h>
#include <functional>
#include <map>
#include <set>
#include <sstream>
#include <string>
#include <sys/mman.h>
#include <sys/stat.h>
#include <unistd.h>
#include <unordered_map>
#include <unordered_set>
#include <vector>

namespace verif {

// ---------------------------------------------------------------- utilities
inline double nowSeconds() {
	using namespace std::chrono;
	return duration<double>(steady_clock::now().time_since_epoch()).count();
}

inline uint64_t mix64(uint64_t h, uint64_t v) {
	h ^= v + 0x9e3779b97f4a7c15ULL + (h << 6) + (h >> 2);
	h *= 0xff51afd7ed558ccdULL;
	h ^= h >> 33;
	return h;
}
inline uint64_t hashStr(const std::string & s) {
	uint64_t h = 1469598103934665603ULL;
	for(unsigned char c : s) { h ^= c; h *= 1099511628211ULL; }
	return h;
}

inline std::string jsonEscape(const std::string & s) {
	std::string o;
	for(unsigned char c : s) {
		switch(c) {
		case '"': o += "\\\""; break;
		case '\\': o += "\\\\"; break;
		case '\n': o += "\\n"; break;
		case '\t': o += "\\t"; break;
		default:
			if(c < 0x20) { char b[8]; snprintf(b, sizeof b, "\\u%04x", c); o += b; }
			else o += (char)c;
		}
	}
	return o;
}

inline std::string fmt(const char * f, ...) {
	char buf[2048];
	va_list ap; va_start(ap, f);
	vsnprintf(buf, sizeof buf, f, ap);
	va_end(ap);
	return buf;
}

inline std::string seqToString(const std::vector<int> & seq) {
	std::string s;
	for(size_t i = 0; i < seq.size(); ++i) { if(i) s += ','; s += std::to_string(seq[i]); }
	return s;
}
inline std::vector<int> seqFromString(const std::string & s) {
	std::vector<int> r; std::string cur;
	for(char c : s) {
		if(c == ',') { if(!cur.empty()) r.push_back(atoi(cur.c_str())); cur.clear(); }
		else if((c >= '0' && c <= '9') || c == '-') cur += c;
	}
	if(!cur.empty()) r.push_back(atoi(cur.c_str()));
	return r;
}

// Marks code that belongs to the checker (model, ledger, explorer): the fault injector never fires inside it.
inline int & harnessDepth() { static int d = 0; return d; }
struct HarnessScope { HarnessScope() { ++harnessDepth(); } ~HarnessScope() { --harnessDepth(); } };

// ---------------------------------------------------------------- explorer
struct Stop {};                               // ends the current execution at a safe point
struct Divergence { std::string what; };      // replay did not reproduce: the checker is broken

enum Kind : uint8_t { K_OP = 0, K_PROG = 1, K_SCHED = 2, K_ENV = 3, K_FAULT = 4 };

struct Pick { int n; int pick; int freeUpTo; uint8_t kind; };

class Explorer {
public:
	std::vector<int> prefix;     // forced choices
	std::vector<Pick> stack;     // DFS path beyond the prefix
	size_t pos = 0;              // position inside the current execution
	int budget = 0;              // max cost of deviations beyond the prefix
	bool defaultsOnly = false;   // replay mode: beyond prefix always the default
	long divergences = 0;

	void beginExecution() { pos = 0; }

	// picks < freeUpTo are free alternatives; picks >= freeUpTo each cost 1.
	int choose(int n, int freeUpTo, Kind kind) {
		HarnessScope hs;
		if(n <= 1) return 0;
		if(pos < prefix.size()) {
			int p = prefix[pos++];
			if(p < 0 || p >= n) throw Divergence{fmt("prefix pick %d out of menu %d at position %zu", p, n, pos - 1)};
			return p;
		}
		size_t i = pos - prefix.size();
		++pos;
		if(i < stack.size()) {
			Pick & pk = stack[i];
			if(pk.n != n || pk.kind != kind) throw Divergence{fmt("menu changed on replay at position %zu: n %d->%d kind %d->%d", pos - 1, pk.n, n, pk.kind, kind)};
			return pk.pick;
		}
		if(defaultsOnly) return 0;
		stack.push_back(Pick{n, 0, freeUpTo, (uint8_t)kind});
		return 0;
	}

	int costUsed(size_t upto) const {
		int c = 0;
		for(size_t i = 0; i < upto && i < stack.size(); ++i) if(stack[i].pick >= stack[i].freeUpTo) ++c;
		return c;
	}

	// moves to the next unexplored path; false when the subtree is exhausted
	bool advance() {
		// entries beyond the executed position cannot exist (execution consumed them)
		while(!stack.empty()) {
			Pick & top = stack.back();
			int cand = top.pick + 1;
			if(cand < top.n) {
				int cost = costUsed(stack.size() - 1) + (cand >= top.freeUpTo ? 1 : 0);
				if(cost <= budget) { top.pick = cand; return true; }
			}
			stack.pop_back();
		}
		return false;
	}

	// drop stack entries that the last execution did not reach (execution ended early)
	void trimToExecuted() {
		size_t used = pos > prefix.size() ? pos - prefix.size() : 0;
		if(stack.size() > used) stack.resize(used);
	}

	std::vector<int> sequence() const {
		std::vector<int> s;
		size_t np = std::min(pos, prefix.size());
		s.assign(prefix.begin(), prefix.begin() + np);
		size_t used = pos > prefix.size() ? pos - prefix.size() : 0;
		for(size_t i = 0; i < used && i < stack.size(); ++i) s.push_back(stack[i].pick);
		return s;
	}
	bool beyondPrefix() const { return pos > prefix.size(); }
	// the next choose() call will create a new stack entry (it is not a replay of the prefix or of the current DFS path)
	bool atFrontier() const { return !defaultsOnly && pos >= prefix.size() && (pos - prefix.size()) >= stack.size(); }
};

// ---------------------------------------------------------------- context
struct Violation {
	std::string sig;      // signature: harness/clause/site — what known-findings match on
	std::string msg;
	std::vector<int> seq; // choice sequence reproducing it
	std::string unit;
	std::vector<std::string> trace;
	int deviations = 0;
};

struct Breadcrumb {
	// shared page holding the choice sequence of the execution in progress
	int * page = nullptr; size_t cap = 0;
	void open(const char * path) {
		int fd = ::open(path, O_RDWR | O_CREAT | O_TRUNC, 0644);
		if(fd < 0) return;
		cap = 4096;
		if(ftruncate(fd, cap * sizeof(int)) != 0) { close(fd); return; }
		void * p = mmap(nullptr, cap * sizeof(int), PROT_READ | PROT_WRITE, MAP_SHARED, fd, 0);
		close(fd);
		if(p != MAP_FAILED) page = (int *)p;
	}
	void write(const std::vector<int> & prefix, const std::vector<Pick> & stack) {
		if(!page) return;
		size_t n = prefix.size() + stack.size();
		if(n + 2 > cap) n = cap - 2;
		page[0] = (int)n;
		size_t k = 1;
		for(size_t i = 0; i < prefix.size() && k <= n; ++i) page[k++] = prefix[i];
		for(size_t i = 0; i < stack.size() && k <= n; ++i) page[k++] = stack[i].pick;
	}
};

class Ctx {
public:
	Explorer ex;
	std::string unitName;
	std::string harnessName;
	int tier = 0;                 // 0 quick, 1 thorough (also set when replaying)
	bool failed = false;          // a violation was recorded in the current execution
	bool tracing = false;
	std::vector<std::string> trace;
	std::vector<Violation> violations;
	std::map<std::string, long> sigCount;
	long executions = 0;
	uint64_t obsHash = 1469598103934665603ULL;   // hash of everything observed, in exploration order
	std::set<uint64_t> outcomes;                 // distinct per-execution outcome hashes
	uint64_t execHash = 0;
	Breadcrumb crumb;
	double deadlineAt = 0;        // absolute; 0 = none
	bool deadlineHit = false;
	volatile long heartbeat = 0;
	std::vector<std::string> samples;
	size_t maxSamples = 6;

	bool abandonSearch = false;   // set by a harness to end the running dfs() after the current execution (reported as not exhaustive)
	void obs(uint64_t v) { execHash = mix64(execHash, v); }
	// something about how the current BFS step ended that the model state does not show (a call's result, "a fault fired"):
	// harnesses whose keys include the last operation append it here, so that e.g. remove(h) -> true and the later
	// remove(h) -> false on a stale handle are two different edges into the same model state and both targets are expanded
	std::string stepTag;
	void tagStep(const std::string & t) { stepTag += t; }
	void obsStr(const std::string & s) { obs(hashStr(s)); }

	void log(const std::string & s) { HarnessScope hs; if(tracing) trace.push_back(s); }
	bool wantLog() const { return tracing; }

	// record a violation; the execution continues to the next safe point, where it stops
	void fail(const std::string & clause, const std::string & msg) {
		HarnessScope hs;
		log("!! VIOLATION [" + clause + "] " + msg);
		if(failed) return;            // first violation of an execution is the one reported
		failed = true;
		std::string sig = harnessName + "/" + clause;
		long & c = sigCount[sig];
		++c;
		int dev = ex.costUsed(ex.stack.size());
		if(c == 1) {
			Violation v; v.sig = sig; v.msg = msg; v.seq = ex.sequence(); v.unit = unitName; v.deviations = dev;
			violations.push_back(v);
		}
		else {
			// keep the counterexample with the fewest deviations (preemptions / nested actions), then the shortest
			for(auto & v : violations) if(v.sig == sig) {
				std::vector<int> s = ex.sequence();
				if(dev < v.deviations || (dev == v.deviations && s.size() < v.seq.size())) { v.msg = msg; v.seq = s; v.deviations = dev; }
			}
		}
	}

	bool timeUp() {
		if(deadlineAt > 0 && nowSeconds() > deadlineAt) { deadlineHit = true; return true; }
		return false;
	}
};

inline Ctx *& gctx() { static Ctx * c = nullptr; return c; }

inline int choose(int n, Kind k = K_PROG) { return gctx()->ex.choose(n, 1, k); }
inline int chooseFree(int n, Kind k = K_OP) { return gctx()->ex.choose(n, n, k); }

// ---------------------------------------------------------------- BFS over histories
struct BfsOptions {
	int maxDepth = 4;
	int innerBudget = 0;
	size_t maxStates = 5000000;
	// When the harness key is the reference model alone (no snapshot of the implementation), two histories that end in the
	// same model state may still differ in the implementation (a latent corruption). Tagging the key with the last operation
	// (and a harness-supplied outcome tag) keeps such states apart, so every distinct (operation -> state) edge is expanded once.
	bool keyIncludesLastOp = false;
};

struct BfsResult {
	size_t states = 0;
	size_t transitions = 0;
	long executions = 0;
	int depthCompleted = 0;
	bool closed = false;        // frontier emptied: every reachable state under the caps was expanded
	bool capped = false;        // deadline or state cap hit
	std::vector<size_t> frontierSizes;
};

// Interface the BFS hands to the harness body.
class Bfs {
public:
	Ctx & ctx;
	BfsOptions opt;
	BfsResult res;
	std::unordered_set<std::string> seen;
	struct Entry { std::vector<int> seq; uint64_t keyHash; };
	std::vector<Entry> frontier, nextFrontier;
	uint64_t expectedKey = 0; bool haveExpected = false;
	bool rootRegistered = false;

	Bfs(Ctx & c, BfsOptions o) : ctx(c), opt(o) {}

	// start of a step: which operation
	int lastOp = -1; std::string outcomeTag;
	int chooseOp(int nOps) { lastOp = ctx.ex.choose(nOps, nOps, K_OP); outcomeTag.clear(); ctx.stepTag.clear(); return lastOp; }
	// optional: something about how the operation ended that the model does not show (e.g. "an injected fault fired")
	void tagOutcome(const std::string & t) { outcomeTag += t; }

	// the step turned out not to be applicable in this state: abandon the execution
	[[noreturn]] void skip() { throw Stop{}; }

	// end of a step (also called once before the first step with the initial key)
	void stepEnd(const std::string & modelKey) {
		const std::string key = opt.keyIncludesLastOp ? modelKey + fmt("#op%d", lastOp) + outcomeTag + ctx.stepTag : modelKey;
		Explorer & ex = ctx.ex;
		if(ctx.failed) throw Stop{};
		if(!ex.beyondPrefix()) {
			if(ex.pos == ex.prefix.size()) {
				// end of the replayed history: must be the state we recorded
				uint64_t h = hashStr(key);
				if(haveExpected) {
					if(h != expectedKey) throw Divergence{"state key differs when the same history is replayed on a fresh object: " + key};
				}
				else if(!rootRegistered) {
					rootRegistered = true;
					seen.insert(key);
					res.states = seen.size();
				}
			}
			return;
		}
		++res.transitions;
		if(ctx.samples.size() < ctx.maxSamples && ctx.tracing) {
			// trace-enabled sampling is done by the driver loop below
		}
		if(seen.insert(key).second) {
			nextFrontier.push_back(Entry{ex.sequence(), hashStr(key)});
		}
		throw Stop{};
	}

	// body: constructs fresh objects, calls stepEnd(initialKey), then loops { op = chooseOp(); ...; stepEnd(key); }
	// after: called after the body unwound (objects destroyed) — ledger checks
	void run(const std::function<void(Bfs &)> & body, const std::function<void()> & after) {
		frontier.clear();
		frontier.push_back(Entry{{}, 0});
		bool first = true;
		for(int depth = 0; depth < opt.maxDepth; ++depth) {
			nextFrontier.clear();
			for(size_t fi = 0; fi < frontier.size(); ++fi) {
				Entry & e = frontier[fi];
				Explorer & ex = ctx.ex;
				ex.prefix = e.seq;
				ex.stack.clear();
				ex.budget = opt.innerBudget;
				haveExpected = !first;
				expectedKey = e.keyHash;
				first = false;
				long inner = 0;
				do {
					runOne(body, after);
					if((++inner & 1023) == 0 && ctx.timeUp()) { res.capped = true; break; }
				} while(ex.advance());
				if(res.capped) break;
				if((fi & 15) == 0 && ctx.timeUp()) { res.capped = true; break; }
				if(seen.size() > opt.maxStates) { res.capped = true; break; }
			}
			res.frontierSizes.push_back(nextFrontier.size());
			if(res.capped) break;
			res.depthCompleted = depth + 1;
			frontier.swap(nextFrontier);
			if(frontier.empty()) { res.closed = true; break; }
		}
		res.states = seen.size();
		res.executions = ctx.executions;
	}

	void runOne(const std::function<void(Bfs &)> & body, const std::function<void()> & after) {
		Explorer & ex = ctx.ex;
		ex.beginExecution();
		ctx.failed = false;
		ctx.execHash = 0;
		ctx.crumb.write(ex.prefix, ex.stack);
		++ctx.executions;
		++ctx.heartbeat;
		bool sample = ctx.samples.size() < ctx.maxSamples && (ctx.executions % 997 == 1);
		if(sample) { ctx.tracing = true; ctx.trace.clear(); }
		try { body(*this); }
		catch(Stop &) {}
		if(after) after();
		ex.trimToExecuted();
		ctx.obsHash = mix64(ctx.obsHash, ctx.execHash);
		if(ctx.outcomes.size() < 200000) ctx.outcomes.insert(ctx.execHash);
		if(sample) {
			std::string s;
			for(auto & t : ctx.trace) { if(!s.empty()) s += " ; "; s += t; }
			if(!s.empty()) ctx.samples.push_back(s);
			ctx.tracing = false;
		}
	}
};

// ---------------------------------------------------------------- plain DFS exploration (no state merging)
// body runs one complete execution; returns normally or throws Stop.
struct DfsResult { long executions = 0; bool complete = true; bool abandoned = false; };

inline DfsResult dfs(Ctx & ctx, int budget, const std::function<void()> & body, const std::function<void()> & after = nullptr,
		const std::vector<int> & prefix = {}) {
	DfsResult r;
	Explorer & ex = ctx.ex;
	ex.prefix = prefix; ex.stack.clear(); ex.budget = budget;
	do {
		ex.beginExecution();
		ctx.failed = false;
		ctx.execHash = 0;
		ctx.crumb.write(ex.prefix, ex.stack);
		++ctx.executions; ++ctx.heartbeat; ++r.executions;
		bool sample = ctx.samples.size() < ctx.maxSamples && (ctx.executions % 997 == 1);
		if(sample) { ctx.tracing = true; ctx.trace.clear(); }
		try { body(); }
		catch(Stop &) {}
		if(after) after();
		ex.trimToExecuted();
		ctx.obsHash = mix64(ctx.obsHash, ctx.execHash);
		if(ctx.outcomes.size() < 200000) ctx.outcomes.insert(ctx.execHash);
		if(sample) {
			std::string s;
			for(auto & t : ctx.trace) { if(!s.empty()) s += " ; "; s += t; }
			if(!s.empty()) ctx.samples.push_back(s);
			ctx.tracing = false;
		}
		if(ctx.abandonSearch) { r.complete = false; r.abandoned = true; ctx.abandonSearch = false; break; }   // the harness gave this search up (size cap)
		if((r.executions & 255) == 0 && ctx.timeUp()) { r.complete = false; break; }
	} while(ex.advance());
	return r;
}

// ---------------------------------------------------------------- units
struct UnitReport {
	// free-form numeric facts merged by the driver (summed unless the key starts with "max_" / "min_")
	std::map<std::string, double> num;
	std::map<std::string, std::string> str;
	bool exhaustive = true;
};

struct Unit {
	std::string name;
	int minTier;      // 0 = quick and thorough, 1 = thorough only
	std::function<void(Ctx &, UnitReport &, int tier)> run;
	// replays one recorded choice sequence with tracing on
	std::function<void(Ctx &, const std::vector<int> &)> replay;
};

inline std::vector<Unit> & units() { static std::vector<Unit> u; return u; }

inline void fillBfsReport(UnitReport & rep, const BfsResult & r) {
	rep.num["states"] += (double)r.states;
	rep.num["transitions"] += (double)r.transitions;
	rep.num["executions"] += (double)r.executions;
	rep.num["max_depth"] = std::max(rep.num["max_depth"], (double)r.depthCompleted);
	if(r.closed) rep.num["closed_searches"] += 1;
	rep.num["searches"] += 1;
	if(r.capped) rep.exhaustive = false;
}

// standard replay for BFS-style bodies
inline void replayBody(Ctx & ctx, const std::vector<int> & seq, const std::function<void(Bfs &)> & body, const std::function<void()> & after) {
	Bfs b(ctx, BfsOptions{});
	ctx.ex.prefix = seq; ctx.ex.stack.clear(); ctx.ex.defaultsOnly = true; ctx.ex.budget = 0;
	// in replay, stepEnd beyond the prefix stops; inside the prefix no key expectations
	b.haveExpected = false; b.rootRegistered = true;
	ctx.ex.beginExecution(); ctx.failed = false; ctx.tracing = true; ctx.trace.clear();
	try { body(b); } catch(Stop &) {}
	if(after) after();
}

// ---------------------------------------------------------------- watchdog
inline void installWatchdog(Ctx * c, int stallSeconds) {
	static Ctx * wc; static long last; static int stalled; static int limit;
	wc = c; last = -1; stalled = 0; limit = stallSeconds;
	struct sigaction sa; memset(&sa, 0, sizeof sa);
	sa.sa_handler = [](int) {
		if(wc->heartbeat == last) {
			if(++stalled >= limit) { const char m[] = "VERIF-HANG: no progress\n"; ssize_t r = write(2, m, sizeof m - 1); (void)r; _exit(78); }
		}
		else { last = wc->heartbeat; stalled = 0; }
		alarm(1);
	};
	sigaction(SIGALRM, &sa, nullptr);
	alarm(1);
}

// ---------------------------------------------------------------- main
inline void writeReport(const char * path, Ctx & ctx, const UnitReport & rep, double wall, const std::string & status) {
	FILE * f = fopen(path, "w");
	if(!f) return;
	fprintf(f, "{\n \"unit\": \"%s\",\n \"harness\": \"%s\",\n \"status\": \"%s\",\n \"wall_s\": %.3f,\n", jsonEscape(ctx.unitName).c_str(), jsonEscape(ctx.harnessName).c_str(), status.c_str(), wall);
	fprintf(f, " \"executions\": %ld,\n \"obs_hash\": \"%016llx\",\n \"distinct_outcomes\": %zu,\n \"exhaustive\": %s,\n \"deadline_hit\": %s,\n",
		ctx.executions, (unsigned long long)ctx.obsHash, ctx.outcomes.size(), rep.exhaustive && !ctx.deadlineHit ? "true" : "false", ctx.deadlineHit ? "true" : "false");
	fprintf(f, " \"num\": {");
	bool first = true;
	for(auto & kv : rep.num) { fprintf(f, "%s\"%s\": %.0f", first ? "" : ", ", jsonEscape(kv.first).c_str(), kv.second); first = false; }
	fprintf(f, "},\n \"str\": {");
	first = true;
	for(auto & kv : rep.str) { fprintf(f, "%s\"%s\": \"%s\"", first ? "" : ", ", jsonEscape(kv.first).c_str(), jsonEscape(kv.second).c_str()); first = false; }
	fprintf(f, "},\n \"samples\": [");
	first = true;
	for(auto & s : ctx.samples) { fprintf(f, "%s\"%s\"", first ? "" : ", ", jsonEscape(s).c_str()); first = false; }
	fprintf(f, "],\n \"violations\": [");
	first = true;
	for(auto & v : ctx.violations) {
		fprintf(f, "%s\n  {\"sig\": \"%s\", \"msg\": \"%s\", \"unit\": \"%s\", \"seq\": \"%s\", \"count\": %ld}", first ? "" : ",",
			jsonEscape(v.sig).c_str(), jsonEscape(v.msg).c_str(), jsonEscape(v.unit).c_str(), seqToString(v.seq).c_str(), ctx.sigCount[v.sig]);
		first = false;
	}
	fprintf(f, "]\n}\n");
	fclose(f);
}

inline int frameworkMain(int argc, char ** argv, const char * harnessName) {
	std::string mode = "run", out, crumbPath, seqStr, unitSel;
	int tier = 0; double deadline = 0; int stall = 60;
	// waitFor(0) on a real std::condition_variable is a timed futex wait; with the default 50 us timer slack every such call sleeps
	// ~55 us although its deadline has passed. The harnesses make millions of them: ask for the minimum slack (verdicts do not depend on it).
	prctl(PR_SET_TIMERSLACK, 1UL, 0UL, 0UL, 0UL);
	for(int i = 1; i < argc; ++i) {
		std::string a = argv[i];
		auto next = [&]() -> std::string { return i + 1 < argc ? argv[++i] : ""; };
		if(a == "--list") mode = "list";
		else if(a == "--tier") { std::string t = next(); tier = (t == "thorough") ? 1 : 0; }
		else if(a == "--unit") unitSel = next();
		else if(a == "--out") out = next();
		else if(a == "--crumb") crumbPath = next();
		else if(a == "--replay") { mode = "replay"; seqStr = next(); }
		else if(a == "--deadline") deadline = atof(next().c_str());
		else if(a == "--stall") stall = atoi(next().c_str());
	}
	auto & us = units();
	if(mode == "list") {
		for(size_t i = 0; i < us.size(); ++i) if(us[i].minTier <= tier) printf("%zu %s\n", i, us[i].name.c_str());
		return 0;
	}
	size_t ui = (size_t)atoi(unitSel.c_str());
	if(ui >= us.size()) { fprintf(stderr, "no such unit\n"); return 3; }
	Ctx ctx; gctx() = &ctx;
	ctx.unitName = us[ui].name; ctx.harnessName = harnessName; ctx.tier = tier;
	if(!crumbPath.empty()) ctx.crumb.open(crumbPath.c_str());
	installWatchdog(&ctx, stall);
	double t0 = nowSeconds();
	if(deadline > 0) ctx.deadlineAt = t0 + deadline;
	if(mode == "replay") {
		std::vector<int> seq = seqFromString(seqStr);
		int rc = 0;
		try {
			if(us[ui].replay) us[ui].replay(ctx, seq);
			else { fprintf(stderr, "unit has no replay\n"); return 3; }
		}
		catch(Divergence & d) { printf("DIVERGENCE %s\n", d.what.c_str()); rc = 2; }
		for(auto & t : ctx.trace) printf("  %s\n", t.c_str());
		if(!ctx.violations.empty()) { printf("REPLAY-VIOLATION sig=%s msg=%s\n", ctx.violations[0].sig.c_str(), ctx.violations[0].msg.c_str()); rc = 1; }
		else if(rc == 0) printf("REPLAY-OK no violation on this sequence\n");
		if(!out.empty()) { UnitReport rep; writeReport(out.c_str(), ctx, rep, nowSeconds() - t0, "replay"); }
		fflush(stdout);
		_exit(rc);
	}
	UnitReport rep;
	std::string status = "ok";
	try { us[ui].run(ctx, rep, tier); }
	catch(Divergence & d) { status = "divergence: " + d.what; }
	if(!out.empty()) writeReport(out.c_str(), ctx, rep, nowSeconds() - t0, status);
	fflush(stdout);
	if(status != "ok") { fprintf(stderr, "%s\n", status.c_str()); return 2; }
	return 0;
}

} // namespace verif

// Interposed libc entry (one definition per harness binary, placed by VERIF_MAIN): a timed condition wait whose absolute
// deadline has ALREADY passed returns ETIMEDOUT at once - the POSIX result - instead of making a futex round trip
// (~20-55 us each in this sandbox; the single-threaded harnesses call waitFor(0) millions of times). Calls with a deadline
// in the future go to the real function. Only the threads of Engine H/F harnesses (one thread) ever get here: Engine S
// uses its own condition variable.
#define VERIF_CONDWAIT_SHORTCUT \
	extern "C" int pthread_cond_clockwait(pthread_cond_t * c, pthread_mutex_t * m, clockid_t clk, const struct timespec * abstime) { \
		typedef int (*Fn)(pthread_cond_t *, pthread_mutex_t *, clockid_t, const struct timespec *); \
		static Fn real = (Fn)dlsym(RTLD_NEXT, "pthread_cond_clockwait"); \
		struct timespec now; \
		if(clock_gettime(clk, &now) == 0 && (now.tv_sec > abstime->tv_sec || (now.tv_sec == abstime->tv_sec && now.tv_nsec >= abstime->tv_nsec))) return ETIMEDOUT; \
		return real(c, m, clk, abstime); \
	}
#define VERIF_MAIN(name) VERIF_CONDWAIT_SHORTCUT int main(int argc, char ** argv) { return verif::frameworkMain(argc, argv, name); }
