// Engine F: fault injection. Every fault point (an allocation through the replaced global operator new,
// or an instrumented piece of user code) asks the explorer "fail here?" while the injector is armed.
// The default answer is "no"; "yes" is a deviation of cost 1, so with budget 1 every single fault point
// of an operation fires in exactly one execution, and with the BFS going deeper, faults in succession.
#pragma once
#include "core.h"
#include <new>
#include <exception>

namespace verif {

struct Injected { const char * where; };

struct FaultCtl {
	bool armed = false;        // inside the library operation under test
	int fired = 0;             // faults fired since the last arm()
	const char * lastTag = "";
	long points = 0;           // fault points passed while armed (statistics)
	std::map<std::string, long> firedByTag;
};
inline FaultCtl & fctl() { static FaultCtl f; return f; }

inline bool faultChoice(const char * tag) {
	FaultCtl & f = fctl();
	if(!f.armed || harnessDepth() > 0) return false;
	HarnessScope hs;
	++f.points;
	int c = gctx()->ex.choose(2, 1, K_FAULT);
	if(c == 1) { ++f.fired; f.lastTag = tag; ++f.firedByTag[tag]; gctx()->log(std::string("  >> fault injected at: ") + tag); return true; }
	return false;
}
inline void faultPoint(const char * tag) { if(faultChoice(tag)) throw Injected{tag}; }

enum Outcome { O_DONE, O_THREW };

// Runs one library operation with the injector armed. Returns whether an injected fault reached the caller.
template <typename F>
Outcome attempt(Ctx & ctx, const char * what, F f) {
	FaultCtl & fc = fctl();
	fc.fired = 0; fc.armed = true;
	try { f(); }
	catch(Injected & e) { fc.armed = false; ctx.obs(hashStr(e.where)); ctx.log(fmt("  %s threw the injected exception (%s)", what, e.where)); return O_THREW; }
	catch(std::bad_alloc &) { fc.armed = false; ctx.obs(77); ctx.log(fmt("  %s threw std::bad_alloc", what)); if(fc.fired == 0) ctx.fail("spurious-bad-alloc", fmt("%s threw std::bad_alloc although no allocation was made to fail", what)); return O_THREW; }
	catch(Stop &) { fc.armed = false; throw; }
	catch(Divergence &) { fc.armed = false; throw; }
	catch(...) { fc.armed = false; ctx.fail("exception-translated", fmt("%s let an exception of a different type escape after an injected fault at %s", what, fc.lastTag)); return O_THREW; }
	fc.armed = false;
	if(fc.fired > 0) ctx.fail("exception-swallowed", fmt("%s returned normally although a fault was injected at %s: the exception did not reach the caller", what, fc.lastTag));
	return O_DONE;
}

inline void installTerminateTrap() {
	std::set_terminate([]() {
		const char m[] = "VERIF-TERMINATE: std::terminate called (exception escaped a noexcept function or destructor)\n";
		ssize_t r = write(2, m, sizeof m - 1); (void)r;
		_exit(79);
	});
}

} // namespace verif

#ifdef VERIF_REPLACE_NEW
// Replaced global allocation functions: a fault point while armed, malloc/free otherwise (ASan still sees them).
void * operator new(std::size_t n) {
	if(verif::faultChoice("allocation")) throw std::bad_alloc();
	void * p = malloc(n ? n : 1);
	if(!p) throw std::bad_alloc();
	return p;
}
void * operator new[](std::size_t n) { return operator new(n); }
void * operator new(std::size_t n, const std::nothrow_t &) noexcept { return malloc(n ? n : 1); }
void * operator new[](std::size_t n, const std::nothrow_t &) noexcept { return malloc(n ? n : 1); }
void operator delete(void * p) noexcept { free(p); }
void operator delete[](void * p) noexcept { free(p); }
void operator delete(void * p, std::size_t) noexcept { free(p); }
void operator delete[](void * p, std::size_t) noexcept { free(p); }
#endif
