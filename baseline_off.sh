#!/bin/bash
# Runs the repository's own unit-test suite with the verification guard OFF
# (no -DEVENTPP_VERIF) from /repo's current working tree, in a scratch build
# directory that is removed afterwards, and compares the result with
# /root/.vp/BASELINE.json (every stable_pass test must pass).
set -u
REPO="${VERIF_REPO:-/repo}"
SCRATCH="$(mktemp -d /var/tmp/eventpp-baseline.XXXXXX)"
trap 'rm -rf "$SCRATCH"' EXIT
SRC="$REPO/tests/unittest"
OBJS=()
pids=()
i=0
for f in "$SRC"/*.cpp; do
	o="$SCRATCH/$(basename "$f" .cpp).o"
	OBJS+=("$o")
	g++ -std=c++17 -O1 -w -I"$REPO/include" -I"$REPO/tests" -c "$f" -o "$o" &
	pids+=($!)
	i=$((i+1))
	if [ $((i % 16)) -eq 0 ]; then for p in "${pids[@]}"; do wait "$p" || { echo "BASELINE-OFF: compile failed"; exit 2; }; done; pids=(); fi
done
for p in "${pids[@]}"; do wait "$p" || { echo "BASELINE-OFF: compile failed"; exit 2; }; done
g++ "${OBJS[@]}" -o "$SCRATCH/unittest" -pthread || { echo "BASELINE-OFF: link failed"; exit 2; }
(cd "$SCRATCH" && timeout 900 ./unittest -r junit -o "$SCRATCH/junit.xml" >/dev/null 2>&1)
rc=$?
python3 - "$SCRATCH/junit.xml" "$rc" <<'EOF'
import sys, json, xml.etree.ElementTree as ET
path, rc = sys.argv[1], int(sys.argv[2])
base = json.load(open('/root/.vp/BASELINE.json'))
want = set(base['stable_pass'])
try:
    root = ET.parse(path).getroot()
except Exception as e:
    print("BASELINE-OFF: no junit output:", e); sys.exit(2)
passed, failed = set(), set()
for tc in root.iter('testcase'):
    name = "unittest.%s::%s" % (tc.get('classname', 'global').split('.')[-1], tc.get('name'))
    bad = any(ch.tag in ('failure', 'error') for ch in tc)
    (failed if bad else passed).add(name)
passed -= failed
missing = sorted(want - passed)
print("BASELINE-OFF: unittest exit=%d passed=%d failed=%d baseline=%d missing=%d" % (rc, len(passed), len(failed), len(want), len(missing)))
for m in missing[:20]:
    print("  not passing:", m)
sys.exit(0 if not missing and not failed else 1)
EOF
