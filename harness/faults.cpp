// Engine F harness for C09: exceptions from user code and failed allocations propagate and leave every
// container consistent and leak-free. BFS over small states; in every state every operation is run with a
// fault at each individual fault point (explorer budget 1 per step; deeper BFS levels give faults in succession).
#define VERIF_DEFINE_HOOKS
#define VERIF_REPLACE_NEW
#include "../fw/core.h"
#include "../fw/ledger.h"
#include "../fw/sched.h"
#include "../fw/fault.h"
#include <eventpp/callbacklist.h>
#include <eventpp/eventdispatcher.h>
#include <eventpp/eventqueue.h>
#include <eventpp/hetercallbacklist.h>
#include <eventpp/hetereventdispatcher.h>
#include <eventpp/hetereventqueue.h>
#include <eventpp/mixins/mixinfilter.h>
#include <eventpp/utilities/scopedremover.h>
#include <eventpp/utilities/counterremover.h>
#include <eventpp/utilities/conditionalremover.h>
#include <eventpp/utilities/orderedqueuelist.h>
#include <deque>

using namespace verif;

static std::vector<int> * g_seen = nullptr;
static void note(int v) { HarnessScope hs; gctx()->obs((uint64_t)(v + 1000000)); if(g_seen) g_seen->push_back(v); }
static std::string vec(const std::vector<int> & v) { std::string s = "["; for(int x : v) s += fmt("%d ", x); return s + "]"; }

// ---- user types with fault points
struct FCb {       // callback: copy and invocation can throw
	int id;
	explicit FCb(int i = 0) : id(i) { ledger().born(this, TC_CALLBACK, id); }
	FCb(const FCb & o) : id(o.id) { faultPoint("callback-copy"); ledger().born(this, TC_CALLBACK, id); }
	FCb(FCb && o) noexcept : id(o.id) { ledger().born(this, TC_CALLBACK, id); }
	FCb & operator=(const FCb &) = delete;
	~FCb() { ledger().died(this, TC_CALLBACK, id); }
	void operator()(int) const { faultPoint("callback-invoke"); note(id); }
	void operator()(const std::string &) const { faultPoint("callback-invoke"); note(id); }
};
struct FPayload {  // event argument: copy and move can throw
	int id; bool moved;
	explicit FPayload(int i = 0) : id(i), moved(false) { ledger().born(this, TC_PAYLOAD, id); }
	FPayload(const FPayload & o) : id(o.id), moved(o.moved) { faultPoint("argument-copy"); ledger().born(this, TC_PAYLOAD, id, moved); }
	FPayload(FPayload && o) : id(o.id), moved(o.moved) { faultPoint("argument-move"); ledger().born(this, TC_PAYLOAD, id, moved); o.moved = true; ledger().setMoved(&o); }
	FPayload & operator=(const FPayload & o) { faultPoint("argument-copy-assign"); id = o.id; moved = o.moved; sync(); return *this; }
	FPayload & operator=(FPayload && o) { faultPoint("argument-move-assign"); id = o.id; moved = o.moved; o.moved = true; ledger().setMoved(&o); sync(); return *this; }
	~FPayload() { ledger().died(this, TC_PAYLOAD, id); }
	void sync() { HarnessScope hs; auto it = ledger().live.find(this); if(it != ledger().live.end()) { it->second.id = id; it->second.moved = moved; } }
};
struct FKey {      // event key: copy, comparison and hashing can throw
	int v;
	FKey(int x = 0) : v(x) {}
	FKey(const FKey & o) : v(o.v) { faultPoint("key-copy"); }
	FKey(FKey && o) noexcept : v(o.v) {}
	FKey & operator=(const FKey & o) { faultPoint("key-copy"); v = o.v; return *this; }
	FKey & operator=(FKey && o) noexcept { v = o.v; return *this; }
	bool operator<(const FKey & o) const { faultPoint("key-compare"); return v < o.v; }
	bool operator==(const FKey & o) const { faultPoint("key-compare"); return v == o.v; }
};
struct FKeyHash { size_t operator()(const FKey & k) const { faultPoint("key-hash"); return (size_t)k.v; } };
namespace std { template <> struct hash<FKey> { size_t operator()(const FKey & k) const { verif::faultPoint("key-hash"); return (size_t)k.v; } }; }

template <typename Th> struct P { using Threading = Th; };
using MT = eventpp::MultipleThreading;
using ST = eventpp::SingleThreading;

// ------------------------------------------------------------------ common shell
struct Subject {
	Ctx & ctx;
	explicit Subject(Ctx & c) : ctx(c) {}
	virtual ~Subject() {}
	virtual void build() = 0;          // fresh objects + model
	virtual void destroy() = 0;
	virtual int menu() = 0;
	virtual void op(Bfs & b, int o) = 0;
	virtual void verify(const char * when) = 0;   // observation vs model (disarmed)
	virtual std::string key() = 0;
	virtual void adoptAfterMultipleFaults() {}
	int cap(int quick) const { return ctx.tier >= 1 ? quick + 1 : quick; }   // size caps are one larger in the thorough tier
	void body(Bfs & b) {
		ledger().reset();
		build();
		struct D { Subject * s; ~D() { s->destroy(); } } d{this};
		b.stepEnd(key());
		for(;;) {
			int o = b.chooseOp(menu());
			fctl().fired = 0;
			op(b, o);
			if(fctl().fired > 0) b.tagOutcome("+fault");
			// The property quantifies over ONE failing point per operation (singly, and in succession across operations). The thorough
			// tier also lets a second point fail inside the same operation; then a rollback can itself fail, and only "no leak, valid,
			// usable" is demanded: subjects whose strong guarantee rests on a rollback adopt what the objects show.
			if(fctl().fired >= 2) { b.tagOutcome("+2"); if(!ctx.failed) adoptAfterMultipleFaults(); }
			if(!ctx.failed) verify("after the operation");
			checkLedgerErrors(ctx, "quiescent");
			b.stepEnd(key());
		}
	}
	void after() {
		checkLedgerErrors(ctx, "after destruction");
		if(ledger().liveAll() != 0 && !ctx.failed) ctx.fail("leak-after-destruction", "objects still alive after the containers were destroyed: " + ledger().describeLive());
	}
};

// ------------------------------------------------------------------ S1: CallbackList
template <typename Th>
struct SList : Subject {
	typedef eventpp::CallbackList<void(int), P<Th> > L;
	typedef typename L::Handle Handle;
	L * a = nullptr, * other = nullptr;
	std::vector<int> ma, mother;
	std::vector<Handle> handleOf; int slot[2]; int adds = 0; int nextId = 0;
	using Subject::Subject;
	void build() override { a = new L(); other = new L(); ma.clear(); mother.clear(); handleOf.clear(); slot[0] = slot[1] = -1; adds = 0; nextId = 100;
		for(int i = 0; i < 2; ++i) { other->append(FCb(i)); mother.push_back(i); } }
	void destroy() override { handleOf.clear(); delete a; delete other; a = other = nullptr; }
	int menu() override { return 3 + 2 + 1 + 1 + 1 + 1 + 1; }
	bool isIn(int id) const { return std::find(ma.begin(), ma.end(), id) != ma.end(); }
	void op(Bfs & b, int o) override {
		if(o < 3) {
			if((int)ma.size() >= cap(3)) b.skip();
			int id = nextId++; handleOf.resize(nextId); Handle h;
			int before = (o == 2 && slot[0] >= 0) ? slot[0] : -1;
			typename L::Callback cb{FCb(id)};
			ctx.log(fmt("%s -> #%d", o == 0 ? "append" : o == 1 ? "prepend" : "insert(before slot0)", id));
			Outcome r = attempt(ctx, "adding a callback", [&]() { h = o == 0 ? a->append(cb) : o == 1 ? a->prepend(cb) : a->insert(cb, before >= 0 ? handleOf[before] : Handle()); });
			if(r == O_DONE) {
				handleOf[id] = h;
				if(o == 0) ma.push_back(id); else if(o == 1) ma.insert(ma.begin(), id);
				else { auto it = (before >= 0 && isIn(before)) ? std::find(ma.begin(), ma.end(), before) : ma.end(); ma.insert(it, id); }
				slot[adds % 2] = id; ++adds;
			}
			return;
		}
		o -= 3;
		if(o < 2) {
			if(slot[o] < 0) b.skip();
			int id = slot[o]; bool expect = isIn(id), got = false;
			Outcome r = attempt(ctx, "remove", [&]() { got = a->remove(handleOf[id]); });
			ctx.log(fmt("remove(#%d) -> %d", id, (int)got));
			if(r == O_DONE) { if(expect) ma.erase(std::find(ma.begin(), ma.end(), id)); if(got != expect) ctx.fail("remove-result", fmt("remove(#%d) returned %d", id, (int)got)); }
			return;
		}
		o -= 2;
		if(o == 0) {   // invocation with callbacks that may throw: effects of the callbacks stand, the list is unchanged
			std::vector<int> seen; g_seen = &seen;
			ctx.log("invoke");
			Outcome r = attempt(ctx, "invocation", [&]() { (*a)(1); });
			g_seen = nullptr;
			if(r == O_DONE && seen != ma) ctx.fail("content-differs", fmt("invocation called %s, the model holds %s", vec(seen).c_str(), vec(ma).c_str()));
			if(r == O_THREW) { if(seen.size() > ma.size() || !std::equal(seen.begin(), seen.end(), ma.begin())) ctx.fail("content-differs", fmt("before the exception the invocation called %s, which is not a prefix of %s", vec(seen).c_str(), vec(ma).c_str())); }
			return;
		}
		if(o == 1) {   // copy assignment: strong guarantee
			ctx.log("a = other (copy assignment)");
			Outcome r = attempt(ctx, "copy assignment", [&]() { *a = *other; });
			if(r == O_DONE) { ma = mother; slot[0] = slot[1] = -1; }
			return;
		}
		if(o == 2) {   // copy construction: source untouched, no leak
			ctx.log("copy-construct a temporary from a");
			std::vector<int> seen;
			Outcome r = attempt(ctx, "copy construction", [&]() { L tmp(*a); fctl().armed = false; g_seen = &seen; tmp(1); g_seen = nullptr; });
			g_seen = nullptr;
			if(r == O_DONE && seen != ma) ctx.fail("content-differs", fmt("a fresh copy called %s, the source holds %s", vec(seen).c_str(), vec(ma).c_str()));
			return;
		}
		if(o == 3) {   // forEach with a throwing functor
			std::vector<int> seen;
			ctx.log("forEach");
			Outcome r = attempt(ctx, "forEach", [&]() { a->forEach([&](const typename L::Callback & cb) { faultPoint("enumeration-functor"); HarnessScope hs; seen.push_back(cb.template target<FCb>()->id); }); });
			if(r == O_DONE && seen != ma) ctx.fail("content-differs", fmt("forEach visited %s, the model holds %s", vec(seen).c_str(), vec(ma).c_str()));
			return;
		}
		// move assignment from a temporary copy of other (no-throw part) — "no leak, usable"
		ctx.log("a = L(other) (copy construct + move assign)");
		Outcome r = attempt(ctx, "copy-construct + move-assign", [&]() { L tmp(*other); *a = std::move(tmp); });
		if(r == O_DONE) { ma = mother; slot[0] = slot[1] = -1; }
	}
	void verify(const char * when) override {
		std::vector<int> seen; g_seen = &seen; (*a)(1); g_seen = nullptr;
		if(seen != ma) { ctx.fail("state-changed-by-failed-operation", fmt("%s: the list calls %s, the model (unchanged by failed operations) holds %s", when, vec(seen).c_str(), vec(ma).c_str())); return; }
		seen.clear(); g_seen = &seen; (*other)(1); g_seen = nullptr;
		if(seen != mother) ctx.fail("source-modified", fmt("%s: the source of the copies calls %s instead of %s", when, vec(seen).c_str(), vec(mother).c_str()));
		int have = ledger().liveTotal(TC_CALLBACK, true), want = (int)(ma.size() + mother.size());
		if(have != want && !ctx.failed) ctx.fail("leak-or-loss", fmt("%s: %d callback objects alive, the containers hold %d", when, have, want));
		if(a->empty() != ma.empty() && !ctx.failed) ctx.fail("empty-wrong", "empty() disagrees with the content");
	}
	std::string key() override { return fmt("n%zu|s%d%d|%d", ma.size(), slot[0] < 0 ? -1 : (isIn(slot[0]) ? (int)(std::find(ma.begin(), ma.end(), slot[0]) - ma.begin()) : 9), slot[1] < 0 ? -1 : (isIn(slot[1]) ? (int)(std::find(ma.begin(), ma.end(), slot[1]) - ma.begin()) : 9), adds % 2); }
};

// ------------------------------------------------------------------ S2: EventDispatcher with a throwing key type (ordered and hashed maps)
template <typename Th, bool Hashed>
struct PolKey { using Threading = Th; template <typename K, typename V> using Map = typename std::conditional<Hashed, std::unordered_map<K, V>, std::map<K, V> >::type; };
template <typename Th, bool Hashed>
struct SDisp : Subject {
	typedef eventpp::EventDispatcher<FKey, void(int), PolKey<Th, Hashed> > D;
	typedef typename D::Handle Handle;
	D * d = nullptr, * other = nullptr;
	std::vector<int> m[2], mo[2];
	std::vector<Handle> handleOf; std::vector<int> keyOf; int slot[2]; int adds = 0; int nextId = 0;
	using Subject::Subject;
	void build() override { d = new D(); other = new D(); for(int k = 0; k < 2; ++k) { m[k].clear(); mo[k].clear(); } handleOf.clear(); keyOf.clear(); slot[0] = slot[1] = -1; adds = 0; nextId = 100;
		other->appendListener(FKey(1), FCb(1)); mo[0].push_back(1); }
	void destroy() override { handleOf.clear(); delete d; delete other; d = other = nullptr; }
	int total() const { return (int)(m[0].size() + m[1].size()); }
	int menu() override { return 4 + 2 + 2 + 2 + 1 + 1; }
	void op(Bfs & b, int o) override {
		if(o < 4) {
			if(total() >= cap(3)) b.skip();
			int k = o % 2; bool prepend = o >= 2; int id = nextId++; handleOf.resize(nextId); keyOf.resize(nextId); Handle h;
			FKey key(k + 1); typename D::Callback cb{FCb(id)};
			ctx.log(fmt("%sListener(key %d) -> #%d", prepend ? "prepend" : "append", k, id));
			Outcome r = attempt(ctx, "adding a listener", [&]() { h = prepend ? d->prependListener(key, cb) : d->appendListener(key, cb); });
			if(r == O_DONE) { handleOf[id] = h; keyOf[id] = k; if(prepend) m[k].insert(m[k].begin(), id); else m[k].push_back(id); slot[adds % 2] = id; ++adds; }
			return;
		}
		o -= 4;
		if(o < 2) {
			if(slot[o] < 0) b.skip();
			int id = slot[o]; int k = keyOf[id]; bool expect = std::find(m[k].begin(), m[k].end(), id) != m[k].end(), got = false;
			FKey key(k + 1);
			Outcome r = attempt(ctx, "removeListener", [&]() { got = d->removeListener(key, handleOf[id]); });
			ctx.log(fmt("removeListener(#%d) -> %d", id, (int)got));
			if(r == O_DONE) { if(expect) m[k].erase(std::find(m[k].begin(), m[k].end(), id)); if(got != expect) ctx.fail("remove-result", fmt("removeListener(#%d) returned %d", id, (int)got)); }
			return;
		}
		o -= 2;
		if(o < 2) {
			std::vector<int> seen; g_seen = &seen; FKey key(o + 1);
			ctx.log(fmt("dispatch(key %d)", o));
			Outcome r = attempt(ctx, "dispatch", [&]() { d->dispatch(key, 1); });
			g_seen = nullptr;
			if(r == O_DONE && seen != m[o]) ctx.fail("content-differs", fmt("dispatch called %s, the model holds %s", vec(seen).c_str(), vec(m[o]).c_str()));
			if(r == O_THREW && (seen.size() > m[o].size() || !std::equal(seen.begin(), seen.end(), m[o].begin()))) ctx.fail("content-differs", fmt("before the exception dispatch called %s, not a prefix of %s", vec(seen).c_str(), vec(m[o]).c_str()));
			return;
		}
		o -= 2;
		if(o < 2) {
			bool got = false; FKey key(o + 1);
			Outcome r = attempt(ctx, "hasAnyListener", [&]() { got = d->hasAnyListener(key); });
			if(r == O_DONE && got != !m[o].empty()) ctx.fail("hasany-wrong", "hasAnyListener disagrees with the model");
			return;
		}
		o -= 2;
		if(o == 0) {
			ctx.log("d = other (copy assignment)");
			Outcome r = attempt(ctx, "dispatcher copy assignment", [&]() { *d = *other; });
			if(r == O_DONE) { m[0] = mo[0]; m[1] = mo[1]; slot[0] = slot[1] = -1; }
			else dstValidAfterFailedAssign();
			return;
		}
		ctx.log("copy-construct a temporary dispatcher");
		std::vector<int> seen;
		Outcome r = attempt(ctx, "dispatcher copy construction", [&]() { D tmp(*d); fctl().armed = false; g_seen = &seen; tmp.dispatch(FKey(1), 1); g_seen = nullptr; });
		g_seen = nullptr;
		if(r == O_DONE && seen != m[0]) ctx.fail("content-differs", fmt("a fresh copy dispatches %s, the source holds %s", vec(seen).c_str(), vec(m[0]).c_str()));
	}
	// a failed copy assignment of a dispatcher leaves the destination valid (not necessarily unchanged): adopt what it shows
	void dstValidAfterFailedAssign() {
		for(int k = 0; k < 2; ++k) { std::vector<int> seen; g_seen = &seen; d->dispatch(FKey(k + 1), 1); g_seen = nullptr; m[k] = seen; }
		slot[0] = slot[1] = -1;
	}
	void verify(const char * when) override {
		int want = 0;
		for(int k = 0; k < 2; ++k) {
			std::vector<int> seen; g_seen = &seen; d->dispatch(FKey(k + 1), 1); g_seen = nullptr;
			if(seen != m[k]) { ctx.fail("state-changed-by-failed-operation", fmt("%s: key %d dispatches %s, the model holds %s", when, k, vec(seen).c_str(), vec(m[k]).c_str())); return; }
			seen.clear(); g_seen = &seen; other->dispatch(FKey(k + 1), 1); g_seen = nullptr;
			if(seen != mo[k]) { ctx.fail("source-modified", fmt("%s: the source of the copies dispatches %s instead of %s", when, vec(seen).c_str(), vec(mo[k]).c_str())); return; }
			want += (int)(m[k].size() + mo[k].size());
		}
		int have = ledger().liveTotal(TC_CALLBACK, true);
		if(have != want) ctx.fail("leak-or-loss", fmt("%s: %d callback objects alive, the dispatchers hold %d", when, have, want));
	}
	std::string key() override { return fmt("%zu,%zu|%d%d|%d", m[0].size(), m[1].size(), slot[0] < 0 ? 0 : 1, slot[1] < 0 ? 0 : 1, adds % 2); }
};

// ------------------------------------------------------------------ S3: EventQueue with throwing payload / predicate / filter / comparator
struct FCompare { template <typename T> bool operator()(const T & x, const T & y) const { faultPoint("queue-order-comparator"); return x.event < y.event; } };
template <typename Th, bool Ordered, bool Filter> struct PolQ;
template <typename Th> struct PolQ<Th, false, false> { using Threading = Th; };
template <typename Th> struct PolQ<Th, true, false> { using Threading = Th; template <typename I> using QueueList = eventpp::OrderedQueueList<I, FCompare>; };
template <typename Th> struct PolQ<Th, false, true> { using Threading = Th; using Mixins = eventpp::MixinList<eventpp::MixinFilter>; };

template <typename Th, bool Ordered, bool Filter>
struct SQueue : Subject {
	typedef eventpp::EventQueue<int, void(const FPayload &), PolQ<Th, Ordered, Filter> > Q;
	Q * q = nullptr;
	struct Ev { int id; int key; };
	std::deque<Ev> pending; std::vector<int> listeners; int nextEv = 1; int nFilters = 0;
	using Subject::Subject;
	void build() override { q = new Q(); pending.clear(); listeners.clear(); nextEv = 1; nFilters = 0; }
	void destroy() override { delete q; q = nullptr; }
	void sortPending() { if(Ordered) std::stable_sort(pending.begin(), pending.end(), [](const Ev & x, const Ev & y) { return x.key < y.key; }); }
	int menu() override { return 1 + 4 + 2 + 2 + 5 + (Filter ? 1 : 0); }
	void pushDispatch(std::vector<int> & want, const Ev & e) { for(int f = 0; f < nFilters; ++f) want.push_back(500000 + f + 1); for(int l : listenersFor(e)) want.push_back(l * 1000 + e.id); }
	void op(Bfs & b, int o) override {
		if(o == 0) {
			if(listeners.size() >= 2) b.skip();
			int id = (int)listeners.size() + 1;
			ctx.log(fmt("appendListener -> L%d", id));
			Outcome r = attempt(ctx, "appendListener", [&]() { q->appendListener(1, [id](const FPayload & p) { faultPoint("listener-invoke"); note(id * 1000 + p.id); }); });
			if(r == O_DONE) listeners.push_back(id);
			return;
		}
		o -= 1;
		if(o < 4) {   // enqueue: payload as lvalue (copied) or rvalue (moved); two keys for the ordered variant (both dispatch to key 1 listeners through key==1 only)
			if((int)pending.size() >= cap(3)) b.skip();
			bool lvalue = o % 2 == 0; int key = 1 + (o / 2 && Ordered ? 1 : 0);
			if(o / 2 && !Ordered) b.skip();
			int id = nextEv++;
			FPayload lv(id);
			ctx.log(fmt("enqueue(key %d, payload %d as %s)", key, id, lvalue ? "lvalue" : "rvalue"));
			Outcome r = attempt(ctx, "enqueue", [&]() { if(lvalue) q->enqueue(key, lv); else q->enqueue(key, FPayload(id)); });
			if(r == O_DONE) { pending.push_back(Ev{id, key}); sortPending(); }
			return;
		}
		o -= 4;
		if(o < 2) {   // process / processOne with throwing listeners: the events taken out are discarded, nothing else
			bool one = o == 1;
			std::deque<Ev> batch;
			if(one) { if(!pending.empty()) batch.push_back(pending.front()); } else batch = pending;
			std::vector<int> want, seen; wantFor(batch, want);
			g_seen = &seen; bool got = false;
			ctx.log(one ? "processOne" : "process");
			Outcome r = attempt(ctx, one ? "processOne" : "process", [&]() { got = one ? q->processOne() : q->process(); });
			g_seen = nullptr;
			if(r == O_DONE) { if(one) { if(!pending.empty()) pending.pop_front(); } else pending.clear(); }
			else adoptPending();   // at most the events taken out are discarded; what is still queued must be known events
			if(r == O_DONE) { if(seen != want) ctx.fail("dispatch-differs", fmt("processing dispatched %s, expected %s", vec(seen).c_str(), vec(want).c_str())); if(got != !batch.empty()) ctx.fail("result-wrong", "process result wrong"); }
			else if(seen.size() > want.size() || !std::equal(seen.begin(), seen.end(), want.begin())) ctx.fail("dispatch-differs", fmt("before the exception processing dispatched %s, not a prefix of %s", vec(seen).c_str(), vec(want).c_str()));
			return;
		}
		o -= 2;
		if(o < 2) {   // processIf(odd) / processUntil(even) with a predicate that may throw
			bool until = o == 1;
			std::deque<Ev> batch = pending, keep; std::vector<int> want, seen;
			bool stopped = false;
			for(auto & e : batch) {
				if(stopped) { keep.push_back(e); continue; }
				want.push_back(-e.id);    // predicate asked
				bool odd = e.id % 2 == 1;
				if(until) { if(!odd) { stopped = true; keep.push_back(e); } else pushDispatch(want, e); }
				else { if(odd) pushDispatch(want, e); else keep.push_back(e); }
			}
			g_seen = &seen;
			ctx.log(until ? "processUntil(even)" : "processIf(odd)");
			Outcome r = attempt(ctx, until ? "processUntil" : "processIf", [&]() {
				auto pred = [&](const FPayload & p) { faultPoint("predicate"); note(-p.id); return until ? p.id % 2 == 0 : p.id % 2 == 1; };
				if(until) q->processUntil(pred); else q->processIf(pred);
			});
			g_seen = nullptr;
			if(r == O_DONE) { pending = keep; sortPending(); if(seen != want) ctx.fail("dispatch-differs", fmt("%s observed %s, expected %s", until ? "processUntil" : "processIf", vec(seen).c_str(), vec(want).c_str())); }
			else { adoptPending(); if(seen.size() > want.size() || !std::equal(seen.begin(), seen.end(), want.begin())) ctx.fail("dispatch-differs", fmt("before the exception observed %s, not a prefix of %s", vec(seen).c_str(), vec(want).c_str())); }
			return;
		}
		o -= 2;
		if(o == 0) {  // peekEvent: strong
			typename Q::QueuedEvent qe; bool got = false;
			ctx.log("peekEvent");
			Outcome r = attempt(ctx, "peekEvent", [&]() { got = q->peekEvent(&qe); });
			if(r == O_DONE) { if(got != !pending.empty()) ctx.fail("result-wrong", "peekEvent result wrong"); else if(got && std::get<0>(qe.arguments).id != pending.front().id) ctx.fail("handed-out-event-wrong", "peekEvent handed out the wrong event"); }
			return;
		}
		if(o == 1) {  // takeEvent: no leak, usable; the event is handed out or (on failure) lost or kept
			typename Q::QueuedEvent qe; bool got = false;
			ctx.log("takeEvent");
			Outcome r = attempt(ctx, "takeEvent", [&]() { got = q->takeEvent(&qe); });
			if(r == O_DONE) { if(got != !pending.empty()) ctx.fail("result-wrong", "takeEvent result wrong"); else if(got) { if(std::get<0>(qe.arguments).id != pending.front().id) ctx.fail("handed-out-event-wrong", "takeEvent handed out the wrong event"); pending.pop_front(); } }
			else adoptPending();
			return;
		}
		if(o == 2) { ctx.log("clearEvents"); Outcome r = attempt(ctx, "clearEvents", [&]() { q->clearEvents(); }); if(r == O_DONE) pending.clear(); else adoptPending(); return; }
		if(o == 3) {  // copy construction of a queue: listeners copied, no events; source untouched
			std::vector<int> seen; bool em = false;
			ctx.log("copy-construct a temporary queue");
			Outcome r = attempt(ctx, "queue copy construction", [&]() { Q tmp(*q); fctl().armed = false; em = tmp.emptyQueue(); g_seen = &seen; tmp.dispatch(1, FPayload(77)); g_seen = nullptr; });
			g_seen = nullptr;
			if(r == O_DONE) { std::vector<int> want; pushDispatch(want, Ev{77, 1}); if(seen != want) ctx.fail("content-differs", fmt("a fresh copy dispatches %s, expected %s", vec(seen).c_str(), vec(want).c_str())); if(!em) ctx.fail("copy-not-empty", "a fresh copy of a queue does not report empty"); }
			return;
		}
		if(o == 4) {  // emptyQueue + waitFor(0) after whatever happened
			bool e = q->emptyQueue();
			if(e != pending.empty()) ctx.fail("emptiness-wrong", fmt("emptyQueue()=%d with %zu pending", (int)e, pending.size()));
			return;
		}
		appendFilterOp(std::integral_constant<bool, Filter>());
	}
	void appendFilterOp(std::false_type) {}
	void appendFilterOp(std::true_type) {
		if(nFilters >= 2) throw Stop{};
		int id = nFilters + 1;
		ctx.log(fmt("appendFilter -> F%d", id));
		Outcome r = attempt(ctx, "appendFilter", [&]() { q->appendFilter([id](const FPayload &) { faultPoint("filter-invoke"); note(500000 + id); return true; }); });
		if(r == O_DONE) ++nFilters;
	}
	std::vector<int> listenersFor(const Ev & e) const { return e.key == 1 ? listeners : std::vector<int>(); }
	void wantFor(const std::deque<Ev> & batch, std::vector<int> & want) { for(auto & e : batch) pushDispatch(want, e); }
	// after a failed takeEvent/clearEvents the events concerned may be gone or still queued: count what is there
	void adoptPending() {
		std::deque<Ev> now; std::vector<int> ids;
		typename Q::QueuedEvent qe;
		// non-destructive: peek repeatedly is not possible; take everything and put it back
		std::vector<std::pair<int, int> > got;
		while(q->takeEvent(&qe)) got.push_back(std::make_pair(std::get<0>(qe.arguments).id, qe.event));
		for(auto & g : got) { q->enqueue(g.second, FPayload(g.first)); now.push_back(Ev{g.first, g.second}); }
		for(auto & e : now) { bool known = false; for(auto & p : pending) if(p.id == e.id) known = true; if(!known) ctx.fail("event-from-nowhere", fmt("event %d appeared in the queue", e.id)); }
		pending = now; sortPending();
	}
	void verify(const char * when) override {
		bool e = q->emptyQueue();
		if(e != pending.empty()) { ctx.fail("emptiness-wrong", fmt("%s: emptyQueue()=%d with %zu events pending in the model", when, (int)e, pending.size())); return; }
		bool w = callWaitFor(std::is_same<Th, ST>());
		if(w != !pending.empty()) { ctx.fail("waiting-wrong", fmt("%s: waitFor(0)=%d with %zu events pending", when, (int)w, pending.size())); return; }
		int have = ledger().liveTotal(TC_PAYLOAD, false), want = (int)pending.size();
		if(have != want) { ctx.fail("leak-or-loss", fmt("%s: %d payload objects alive, %d events pending: %s", when, have, want, ledger().describeLive().c_str())); return; }
		// content: a peek must show the model's front
		if(!pending.empty()) { typename Q::QueuedEvent qe; if(!q->peekEvent(&qe) || std::get<0>(qe.arguments).id != pending.front().id) ctx.fail("state-changed-by-failed-operation", fmt("%s: the front of the queue is not event %d", when, pending.front().id)); }
	}
	bool callWaitFor(std::true_type) { return !pending.empty(); }
	bool callWaitFor(std::false_type) { return q->waitFor(std::chrono::milliseconds(0)); }
	std::string key() override { std::string k; for(auto & e : pending) k += fmt("%d.%d,", e.key, e.id % 2); return k + fmt("|L%zu|F%d|n%d", listeners.size(), nFilters, nextEv % 2); }
};

// ------------------------------------------------------------------ S4: heterogeneous list / dispatcher
typedef eventpp::HeterTuple<void(int), void(const std::string &)> HT;
struct FCbS {      // a callback that only matches the second prototype, void(const std::string &)
	FCb inner;
	explicit FCbS(int i) : inner(i) {}
	void operator()(const std::string & s) const { inner(s); }
};
template <typename Th>
struct SHeter : Subject {
	typedef eventpp::HeterCallbackList<HT, P<Th> > L;
	typedef eventpp::HeterEventDispatcher<int, HT, P<Th> > D;
	L * a = nullptr, * other = nullptr; D * d = nullptr, * dother = nullptr;
	// per prototype slot: [0] = void(int), [1] = void(const std::string &)
	std::vector<int> ma[2], mother[2], md[2], mdother[2];
	int nextId = 100;
	using Subject::Subject;
	void build() override {
		a = new L(); other = new L(); d = new D(); dother = new D(); nextId = 100;
		for(int i = 0; i < 2; ++i) { ma[i].clear(); mother[i].clear(); md[i].clear(); mdother[i].clear(); }
		// the source of the copies holds callbacks of BOTH prototypes, so that a copy has several slots to clone
		other->append(FCb(1)); mother[0].push_back(1); other->append(FCbS(2)); mother[1].push_back(2); other->append(FCbS(3)); mother[1].push_back(3);
		dother->appendListener(3, FCb(4)); mdother[0].push_back(4); dother->appendListener(3, FCbS(5)); mdother[1].push_back(5);
	}
	void destroy() override { delete a; delete other; delete d; delete dother; a = other = nullptr; d = dother = nullptr; }
	int menu() override { return 10; }
	static std::vector<int> both(const std::vector<int> * m) { std::vector<int> r = m[0]; r.insert(r.end(), m[1].begin(), m[1].end()); return r; }
	template <typename O> std::vector<int> showList(O & o) { std::vector<int> seen; g_seen = &seen; o(1); o(std::string("s")); g_seen = nullptr; return seen; }
	template <typename O> std::vector<int> showDisp(O & o) { std::vector<int> seen; g_seen = &seen; o.dispatch(3, 1); o.dispatch(3, std::string("s")); g_seen = nullptr; return seen; }
	void op(Bfs & b, int o) override {
		if(o == 0 || o == 6) {
			int slot = o == 0 ? 0 : 1;
			if(ma[0].size() + ma[1].size() >= 2) b.skip();
			int id = nextId++; ctx.log(fmt("HeterCallbackList append (prototype %d) -> #%d", slot, id));
			Outcome r;
			if(slot == 0) { FCb cb(id); r = attempt(ctx, "HeterCallbackList::append", [&]() { a->append(cb); }); }
			else { FCbS cb(id); r = attempt(ctx, "HeterCallbackList::append", [&]() { a->append(cb); }); }
			if(r == O_DONE) ma[slot].push_back(id);
			return;
		}
		if(o == 1) { ctx.log("HeterCallbackList copy assignment"); if(attempt(ctx, "HeterCallbackList copy assignment", [&]() { *a = *other; }) == O_DONE) { ma[0] = mother[0]; ma[1] = mother[1]; } return; }
		if(o == 2) {
			ctx.log("HeterCallbackList copy construction"); std::vector<int> seen;
			Outcome r = attempt(ctx, "HeterCallbackList copy construction", [&]() { L tmp(*a); fctl().armed = false; seen = showList(tmp); });
			g_seen = nullptr;
			if(r == O_DONE && seen != both(ma)) ctx.fail("content-differs", fmt("a fresh heterogeneous copy calls %s, the source holds %s", vec(seen).c_str(), vec(both(ma)).c_str()));
			return;
		}
		if(o == 3 || o == 7) {
			int slot = o == 3 ? 0 : 1;
			std::vector<int> seen; g_seen = &seen; ctx.log(fmt("HeterCallbackList invoke (prototype %d)", slot));
			Outcome r = attempt(ctx, "HeterCallbackList invocation", [&]() { if(slot == 0) (*a)(1); else (*a)(std::string("s")); });
			g_seen = nullptr;
			if(r == O_DONE && seen != ma[slot]) ctx.fail("content-differs", fmt("invocation called %s, model %s", vec(seen).c_str(), vec(ma[slot]).c_str()));
			return;
		}
		if(o == 4 || o == 8) {
			int slot = o == 4 ? 0 : 1;
			if(md[0].size() + md[1].size() >= 2) b.skip();
			int id = nextId++; ctx.log(fmt("HeterEventDispatcher appendListener (prototype %d) -> #%d", slot, id));
			Outcome r;
			if(slot == 0) { FCb cb(id); r = attempt(ctx, "HeterEventDispatcher::appendListener", [&]() { d->appendListener(3, cb); }); }
			else { FCbS cb(id); r = attempt(ctx, "HeterEventDispatcher::appendListener", [&]() { d->appendListener(3, cb); }); }
			if(r == O_DONE) md[slot].push_back(id);
			return;
		}
		if(o == 9) {
			// copy assignment of a heterogeneous dispatcher: destination valid (not necessarily unchanged), source untouched, no leak
			ctx.log("HeterEventDispatcher copy assignment");
			Outcome r = attempt(ctx, "HeterEventDispatcher copy assignment", [&]() { *d = *dother; });
			if(r == O_DONE) { md[0] = mdother[0]; md[1] = mdother[1]; }
			else adoptDispatcher();
			return;
		}
		std::vector<int> seen; g_seen = &seen; ctx.log("HeterEventDispatcher dispatch"); Outcome r = attempt(ctx, "HeterEventDispatcher::dispatch", [&]() { d->dispatch(3, 1); }); g_seen = nullptr;
		if(r == O_DONE && seen != md[0]) ctx.fail("content-differs", fmt("dispatch called %s, model %s", vec(seen).c_str(), vec(md[0]).c_str()));
	}
	// after a failed dispatcher copy assignment the destination has to be valid; it may hold the old or the new listeners per prototype
	void adoptDispatcher() {
		std::vector<int> seen0, seen1;
		g_seen = &seen0; d->dispatch(3, 1); g_seen = &seen1; d->dispatch(3, std::string("s")); g_seen = nullptr;
		// "valid" is all the property asks of the destination (std::map assignment may have dropped the key, kept the old list or
		// taken the new one): whatever it shows must consist of listeners it held or the source holds, none twice
		for(int slot = 0; slot < 2; ++slot) {
			const std::vector<int> & seen = slot ? seen1 : seen0;
			for(size_t i = 0; i < seen.size(); ++i) {
				bool known = std::find(md[slot].begin(), md[slot].end(), seen[i]) != md[slot].end() || std::find(mdother[slot].begin(), mdother[slot].end(), seen[i]) != mdother[slot].end();
				bool twice = std::find(seen.begin() + i + 1, seen.end(), seen[i]) != seen.end();
				if(!known || twice) ctx.fail("destination-invalid", fmt("after a failed dispatcher copy assignment the destination calls %s (old %s, source %s)", vec(seen).c_str(), vec(md[slot]).c_str(), vec(mdother[slot]).c_str()));
			}
		}
		md[0] = seen0; md[1] = seen1;
	}
	void verify(const char * when) override {
		std::vector<int> seen = showList(*a);
		if(seen != both(ma)) { ctx.fail("state-changed-by-failed-operation", fmt("%s: the heterogeneous list calls %s, the model holds %s", when, vec(seen).c_str(), vec(both(ma)).c_str())); return; }
		if(showList(*other) != both(mother) || showDisp(*dother) != both(mdother)) { ctx.fail("source-modified", "the source of the copies changed"); return; }
		seen = showDisp(*d);
		if(seen != both(md)) { ctx.fail("state-changed-by-failed-operation", fmt("%s: the heterogeneous dispatcher calls %s, the model holds %s", when, vec(seen).c_str(), vec(both(md)).c_str())); return; }
		int have = ledger().liveTotal(TC_CALLBACK, true), want = (int)(both(ma).size() + both(mother).size() + both(md).size() + both(mdother).size());
		if(have != want) ctx.fail("leak-or-loss", fmt("%s: %d callback objects alive, the containers hold %d", when, have, want));
	}
	std::string key() override { return fmt("%zu.%zu,%zu.%zu", ma[0].size(), ma[1].size(), md[0].size(), md[1].size()); }
};

// ------------------------------------------------------------------ S5: adding through the remover utilities (strong guarantee)
template <typename Th>
struct SRemovers : Subject {
	typedef eventpp::CallbackList<void(int), P<Th> > L;
	typedef eventpp::EventDispatcher<FKey, void(int), P<Th> > D;   // the event type's copy can throw: the removers store a copy of the event next to the handle
	L * l = nullptr; D * d = nullptr;
	eventpp::ScopedRemover<L> * rl = nullptr; eventpp::ScopedRemover<D> * rd = nullptr;
	std::vector<int> ml, md; std::set<int> viaScoped;
	int nextId = 100;
	using Subject::Subject;
	void build() override { l = new L(); d = new D(); rl = new eventpp::ScopedRemover<L>(*l); rd = new eventpp::ScopedRemover<D>(*d); ml.clear(); md.clear(); viaScoped.clear(); nextId = 100; }
	void destroy() override { delete rl; delete rd; delete l; delete d; rl = nullptr; rd = nullptr; l = nullptr; d = nullptr; }
	int menu() override { return 3 + 3 + 2 + 2 + 1; }
	void op(Bfs & b, int o) override {
		if(o < 6) {
			bool disp = o >= 3; int how = o % 3;
			std::vector<int> & m = disp ? md : ml;
			if(m.size() >= 2) b.skip();
			int id = nextId++; FCb cb(id);
			static const char * hn[] = {"append", "prepend", "insert"};
			ctx.log(fmt("ScopedRemover<%s>::%s -> #%d", disp ? "EventDispatcher" : "CallbackList", hn[how], id));
			Outcome r = attempt(ctx, "adding through ScopedRemover", [&]() {
				if(disp) { if(how == 0) rd->appendListener(3, cb); else if(how == 1) rd->prependListener(3, cb); else rd->insertListener(3, cb, typename D::Handle()); }
				else { if(how == 0) rl->append(cb); else if(how == 1) rl->prepend(cb); else rl->insert(cb, typename L::Handle()); }
			});
			if(r == O_DONE) { if(how == 1) m.insert(m.begin(), id); else m.push_back(id); viaScoped.insert(id); }
			return;
		}
		o -= 6;
		if(o < 2) {
			bool disp = o == 1; std::vector<int> & m = disp ? md : ml;
			if(m.size() >= 2) b.skip();
			int id = nextId++; FCb cb(id);
			ctx.log(fmt("CounterRemover<%s> add -> #%d", disp ? "EventDispatcher" : "CallbackList", id));
			Outcome r = attempt(ctx, "adding through CounterRemover", [&]() { if(disp) eventpp::counterRemover(*d).appendListener(3, cb, 50); else eventpp::counterRemover(*l).append(cb, 50); });
			if(r == O_DONE) m.push_back(id);
			return;
		}
		o -= 2;
		if(o < 2) {
			bool disp = o == 1; std::vector<int> & m = disp ? md : ml;
			if(m.size() >= 2) b.skip();
			int id = nextId++; FCb cb(id);
			ctx.log(fmt("ConditionalRemover<%s> add -> #%d", disp ? "EventDispatcher" : "CallbackList", id));
			Outcome r = attempt(ctx, "adding through ConditionalRemover", [&]() { auto never = []() { return false; }; if(disp) eventpp::conditionalRemover(*d).appendListener(3, cb, never); else eventpp::conditionalRemover(*l).append(cb, never); });
			if(r == O_DONE) m.push_back(id);
			return;
		}
		// reset both scoped removers: everything added through them goes
		ctx.log("reset both ScopedRemovers");
		rl->reset(); rd->reset();
		for(auto * m : {&ml, &md}) m->erase(std::remove_if(m->begin(), m->end(), [&](int id) { return viaScoped.count(id) > 0; }), m->end());
		viaScoped.clear();
	}
	void verify(const char * when) override {
		std::vector<int> seen; g_seen = &seen; (*l)(1); g_seen = nullptr;
		if(seen != ml) { ctx.fail("state-changed-by-failed-operation", fmt("%s: the callback list calls %s, the model (unchanged by failed operations) holds %s", when, vec(seen).c_str(), vec(ml).c_str())); return; }
		seen.clear(); g_seen = &seen; d->dispatch(3, 1); g_seen = nullptr;
		if(seen != md) { ctx.fail("state-changed-by-failed-operation", fmt("%s: the dispatcher calls %s, the model (unchanged by failed operations) holds %s", when, vec(seen).c_str(), vec(md).c_str())); return; }
		int have = ledger().liveTotal(TC_CALLBACK, true), want = (int)(ml.size() + md.size());
		if(have != want) ctx.fail("leak-or-loss", fmt("%s: %d callback objects alive, the containers hold %d", when, have, want));
	}
	// two faults inside one add: the rollback of the remover (detach the listener again) may itself have failed; the listener
	// may then stay attached without the remover knowing it - adopt it as a directly added one
	void adoptAfterMultipleFaults() override {
		std::vector<int> seen; g_seen = &seen; (*l)(1); g_seen = nullptr;
		for(int id : seen) if(std::find(ml.begin(), ml.end(), id) == ml.end()) ctx.log(fmt("  (after two faults in one operation #%d stayed attached to the list)", id));
		ml = seen;
		seen.clear(); g_seen = &seen; d->dispatch(3, 1); g_seen = nullptr;
		md = seen;
	}
	std::string key() override { int sl = 0, sd = 0; for(int id : ml) sl += viaScoped.count(id); for(int id : md) sd += viaScoped.count(id); return fmt("%zu.%d,%zu.%d", ml.size(), sl, md.size(), sd); }
};

// ------------------------------------------------------------------ S6: HeterEventQueue with throwing arguments / listeners / predicate
typedef eventpp::HeterTuple<void(int), void(const FPayload &)> HTQ;
template <typename Th>
struct SHeterQueue : Subject {
	typedef eventpp::HeterEventQueue<int, HTQ, P<Th> > Q;
	Q * q = nullptr;
	struct Ev { int id; int proto; };
	std::deque<Ev> pending; std::vector<int> lis[2]; int nextEv = 1;
	using Subject::Subject;
	void build() override { q = new Q(); pending.clear(); lis[0].clear(); lis[1].clear(); nextEv = 1; }
	void destroy() override { delete q; q = nullptr; }
	int menu() override { return 2 + 3 + 2 + 2 + 1 + 1; }
	void pushDispatch(std::vector<int> & want, const Ev & e) { for(int l : lis[e.proto]) want.push_back(l * 1000 + e.id); }
	// after a failed processing call: whatever is still queued must be known, undispatched events, in order
	void drainAndAdopt(const std::vector<int> & alreadySeen) {
		std::vector<int> seen; g_seen = &seen;
		while(q->process()) {}
		g_seen = nullptr;
		std::set<int> known; for(auto & e : pending) known.insert(e.id);
		for(int v : seen) { int id = v % 1000; if(!known.count(id)) ctx.fail("event-from-nowhere", fmt("after a failed processing call event %d was dispatched although it was not pending", id)); }
		(void)alreadySeen;
		pending.clear();
	}
	void op(Bfs & b, int o) override {
		if(o < 2) {
			if(lis[o].size() >= 2) b.skip();
			int id = (int)(lis[0].size() + lis[1].size()) + 1;
			ctx.log(fmt("appendListener(%s) -> L%d", o ? "void(const FPayload&)" : "void(int)", id));
			Outcome r = attempt(ctx, "HeterEventQueue::appendListener", [&]() {
				if(o == 0) q->appendListener(1, [id](int v) { faultPoint("listener-invoke"); note(id * 1000 + v); });
				else q->appendListener(1, [id](const FPayload & p) { faultPoint("listener-invoke"); note(id * 1000 + p.id); });
			});
			if(r == O_DONE) lis[o].push_back(id);
			return;
		}
		o -= 2;
		if(o < 3) {
			if((int)pending.size() >= cap(3)) b.skip();
			int id = nextEv++;
			FPayload lv(id);
			ctx.log(fmt("enqueue(%s %d)", o == 0 ? "int" : o == 1 ? "payload lvalue" : "payload rvalue", id));
			Outcome r = attempt(ctx, "HeterEventQueue::enqueue", [&]() { if(o == 0) q->enqueue(1, id); else if(o == 1) q->enqueue(1, lv); else q->enqueue(1, FPayload(id)); });
			if(r == O_DONE) pending.push_back(Ev{id, o == 0 ? 0 : 1});
			return;
		}
		o -= 3;
		if(o < 2) {
			bool one = o == 1;
			std::deque<Ev> batch; if(one) { if(!pending.empty()) batch.push_back(pending.front()); } else batch = pending;
			std::vector<int> want, seen; for(auto & e : batch) pushDispatch(want, e);
			g_seen = &seen; bool got = false;
			ctx.log(one ? "processOne" : "process");
			Outcome r = attempt(ctx, one ? "HeterEventQueue::processOne" : "HeterEventQueue::process", [&]() { got = one ? q->processOne() : q->process(); });
			g_seen = nullptr;
			if(r == O_DONE) { if(one) { if(!pending.empty()) pending.pop_front(); } else pending.clear(); if(seen != want) ctx.fail("dispatch-differs", fmt("processing dispatched %s, expected %s", vec(seen).c_str(), vec(want).c_str())); if(got != !batch.empty()) ctx.fail("result-wrong", "process result wrong"); }
			else { if(seen.size() > want.size() || !std::equal(seen.begin(), seen.end(), want.begin())) ctx.fail("dispatch-differs", fmt("before the exception processing dispatched %s, not a prefix of %s", vec(seen).c_str(), vec(want).c_str())); drainAndAdopt(seen); }
			return;
		}
		o -= 2;
		if(o < 2) {   // processIf with a predicate over int events (odd) / payload events (odd)
			int proto = o;
			std::deque<Ev> keep; std::vector<int> want, seen;
			for(auto & e : pending) { if(e.proto != proto) { keep.push_back(e); continue; } want.push_back(-e.id); if(e.id % 2 == 1) pushDispatch(want, e); else keep.push_back(e); }
			g_seen = &seen;
			ctx.log(fmt("processIf(odd %s events)", proto ? "payload" : "int"));
			Outcome r = attempt(ctx, "HeterEventQueue::processIf", [&]() {
				if(proto == 0) q->processIf([&](int v) { faultPoint("predicate"); note(-v); return v % 2 == 1; });
				else q->processIf([&](const FPayload & p) { faultPoint("predicate"); note(-p.id); return p.id % 2 == 1; });
			});
			g_seen = nullptr;
			if(r == O_DONE) { pending = keep; if(seen != want) ctx.fail("dispatch-differs", fmt("processIf observed %s, expected %s", vec(seen).c_str(), vec(want).c_str())); }
			else { if(seen.size() > want.size() || !std::equal(seen.begin(), seen.end(), want.begin())) ctx.fail("dispatch-differs", fmt("before the exception processIf observed %s, not a prefix of %s", vec(seen).c_str(), vec(want).c_str())); drainAndAdopt(seen); }
			return;
		}
		o -= 2;
		if(o == 0) { ctx.log("clearEvents"); Outcome r = attempt(ctx, "HeterEventQueue::clearEvents", [&]() { q->clearEvents(); }); if(r == O_DONE) pending.clear(); else drainAndAdopt(std::vector<int>()); return; }
		std::vector<int> seen; bool em = false;
		ctx.log("copy-construct a temporary heterogeneous queue");
		Outcome r = attempt(ctx, "HeterEventQueue copy construction", [&]() { Q tmp(*q); fctl().armed = false; em = tmp.emptyQueue(); g_seen = &seen; tmp.dispatch(1, 77); g_seen = nullptr; });
		g_seen = nullptr;
		if(r == O_DONE) { std::vector<int> want; pushDispatch(want, Ev{77, 0}); if(seen != want) ctx.fail("content-differs", fmt("a fresh copy dispatches %s, expected %s", vec(seen).c_str(), vec(want).c_str())); if(!em) ctx.fail("copy-not-empty", "a fresh copy of a heterogeneous queue does not report empty"); }
	}
	void verify(const char * when) override {
		bool e = q->emptyQueue();
		if(e != pending.empty()) { ctx.fail("emptiness-wrong", fmt("%s: emptyQueue()=%d with %zu events pending in the model", when, (int)e, pending.size())); return; }
		bool w = q->waitFor(std::chrono::milliseconds(0));
		if(w != !pending.empty()) { ctx.fail("waiting-wrong", fmt("%s: waitFor(0)=%d with %zu events pending", when, (int)w, pending.size())); return; }
		int wantP = 0; for(auto & x : pending) if(x.proto == 1) ++wantP;
		int have = ledger().liveTotal(TC_PAYLOAD, false);
		if(have != wantP) ctx.fail("leak-or-loss", fmt("%s: %d payload objects alive, %d payload events pending: %s", when, have, wantP, ledger().describeLive().c_str()));
	}
	std::string key() override { std::string k; for(auto & e : pending) k += fmt("%d.%d,", e.proto, e.id % 2); return k + fmt("|L%zu,%zu|n%d", lis[0].size(), lis[1].size(), nextEv % 2); }
};

// ------------------------------------------------------------------ units
template <typename S>
static void addUnit(const std::string & name, int minTier, int dq, int dt, int faultsQuick = 1, int faultsThorough = 1) {
	Unit u; u.name = name; u.minTier = minTier;
	u.run = [=](Ctx & ctx, UnitReport & rep, int tier) {
		installTerminateTrap();
		S s(ctx);
		BfsOptions o; o.keyIncludesLastOp = true; o.maxDepth = tier ? dt : dq; o.innerBudget = tier ? faultsThorough : faultsQuick;
		Bfs b(ctx, o);
		b.run([&](Bfs & bb) { s.body(bb); }, [&]() { s.after(); });
		fillBfsReport(rep, b.res);
		rep.num["fault_points_passed"] = (double)fctl().points;
		long fired = 0; std::string tags;
		for(auto & kv : fctl().firedByTag) { fired += kv.second; tags += fmt("%s=%ld ", kv.first.c_str(), kv.second); }
		rep.num["faults_injected"] = (double)fired;
		rep.str["config"] = name + fmt(" depth=%d faults-per-step<=%d; injected by site: ", o.maxDepth, o.innerBudget) + tags;
	};
	u.replay = [=](Ctx & ctx, const std::vector<int> & seq) { installTerminateTrap(); S s(ctx); replayBody(ctx, seq, [&](Bfs & bb) { s.body(bb); }, [&]() { s.after(); }); };
	units().push_back(u);
}

#ifndef VERIF_SUB
#define VERIF_SUB -1
#endif
#define SEL(s) (VERIF_SUB < 0 || VERIF_SUB == (s))
#ifndef VERIF_PREFIX
#define VERIF_PREFIX "C09"
#endif
static struct Register {
	Register() {
#if SEL(0)
		addUnit<SList<MT> >(VERIF_PREFIX "/CallbackList/multi", 0, 5, 10, 1, 2);
		addUnit<SList<ST> >(VERIF_PREFIX "/CallbackList/single", 1, 5, 10, 1, 2);
#endif
#if SEL(1)
		addUnit<SDisp<MT, false> >(VERIF_PREFIX "/EventDispatcher/std::map/throwing-key", 0, 4, 8, 1, 2);
		addUnit<SDisp<MT, true> >(VERIF_PREFIX "/EventDispatcher/std::unordered_map/throwing-key", 0, 4, 8, 1, 2);
#endif
#if SEL(2)
		addUnit<SQueue<MT, false, false> >(VERIF_PREFIX "/EventQueue/multi", 0, 4, 8, 1, 2);
#endif
#if SEL(3)
		addUnit<SQueue<MT, true, false> >(VERIF_PREFIX "/EventQueue/ordered-throwing-comparator", 0, 4, 7, 1, 2);
		addUnit<SQueue<MT, false, true> >(VERIF_PREFIX "/EventQueue/filter", 0, 4, 7, 1, 2);
#endif
#if SEL(4)
		addUnit<SHeter<MT> >(VERIF_PREFIX "/Heterogeneous/multi", 0, 4, 8, 1, 2);
		addUnit<SRemovers<MT> >(VERIF_PREFIX "/Removers/multi", 0, 4, 8, 1, 2);
#endif
#if SEL(5)
		addUnit<SHeterQueue<MT> >(VERIF_PREFIX "/HeterEventQueue/multi", 0, 4, 8, 1, 2);
#endif
	}
} reg;

VERIF_MAIN("faults")
