// Engine H harness for C14: heterogeneous classes route by prototype and never confuse stored types.
// Sanitizers are part of the oracle (a wrong-type read of a recycled slot is a memory error).
#define VERIF_DEFINE_HOOKS
#include "../fw/core.h"
#include "../fw/ledger.h"
#include "../fw/sched.h"
#include <eventpp/hetercallbacklist.h>
#include <eventpp/hetereventdispatcher.h>
#include <eventpp/hetereventqueue.h>
#include <deque>

using namespace verif;

struct Big {
	Tracked t;
	char pad[64];
	explicit Big(int id = 0) : t(id) { memset(pad, 0x5a, sizeof pad); }
	bool intact() const { if(!t.intact()) return false; for(char c : pad) if(c != 0x5a) return false; return true; }
};
static std::string strFor(int id) { return fmt("payload-%06d-a-string-well-beyond-the-small-string-buffer", id); }
static int idOfStr(const std::string & s) { return s.size() > 14 && s.compare(0, 8, "payload-") == 0 ? atoi(s.c_str() + 8) : -1; }

enum Proto { P_INT = 0, P_STR = 1, P_BIG = 2, P_VOID = 3, NPROTO = 4 };
static const char * protoName(int p) { static const char * n[] = {"void(int)", "void(const std::string&)", "void(const Big&)", "void()"}; return n[p]; }
typedef eventpp::HeterTuple<void(int), void(const std::string &), void(const Big &), void()> HT;

struct Call { int kind; int who; int proto; int value; };   // kind 0 listener, 1 predicate
static std::vector<Call> * g_calls = nullptr;
static void logCall(int kind, int who, int proto, int value) { if(g_calls) g_calls->push_back(Call{kind, who, proto, value}); }
static bool operator==(const Call & a, const Call & b) { return a.kind == b.kind && a.who == b.who && a.proto == b.proto && a.value == b.value; }
static std::string callsStr(const std::vector<Call> & v) { std::string s = "["; for(auto & c : v) s += fmt("%s%d:%s=%d ", c.kind ? "pred" : "L", c.who, protoName(c.proto), c.value); return s + "]"; }

struct CbInt : TrackedBase<TC_CALLBACK> { explicit CbInt(int i = 0) : TrackedBase<TC_CALLBACK>(i) {} void operator()(int v) const { if(alive()) logCall(0, id, P_INT, v); } };
struct CbStr : TrackedBase<TC_CALLBACK> { explicit CbStr(int i = 0) : TrackedBase<TC_CALLBACK>(i) {} void operator()(const std::string & s) const { if(alive()) logCall(0, id, P_STR, idOfStr(s)); } };
struct CbBig : TrackedBase<TC_CALLBACK> { explicit CbBig(int i = 0) : TrackedBase<TC_CALLBACK>(i) {} void operator()(const Big & b) const { if(alive()) logCall(0, id, P_BIG, b.intact() ? b.t.id : -777); } };
struct CbVoid : TrackedBase<TC_CALLBACK> { explicit CbVoid(int i = 0) : TrackedBase<TC_CALLBACK>(i) {} void operator()() const { if(alive()) logCall(0, id, P_VOID, 0); } };
// callable with two prototypes: must bind to the first listed one (int)
struct CbIntOrStr : TrackedBase<TC_CALLBACK> {
	explicit CbIntOrStr(int i = 0) : TrackedBase<TC_CALLBACK>(i) {}
	void operator()(int v) const { if(alive()) logCall(0, id, P_INT, v); }
	void operator()(const std::string & s) const { if(alive()) logCall(0, id, P_STR, idOfStr(s)); }
};

template <typename Th> struct PolEx { using Threading = Th; };

struct MEv { int id; int proto; };
struct Cfg { int K = 3; int maxListeners = 3; };

// ------------------------------------------------------------------ queue harness (exclude-event mode, one key)
template <typename Th>
struct QHarness {
	typedef eventpp::HeterEventQueue<int, HT, PolEx<Th> > Q;
	typedef typename Q::Handle Handle;
	Cfg cfg; Ctx & ctx; Q * q = nullptr;
	std::deque<MEv> pending;
	std::vector<int> listeners[NPROTO];
	std::vector<Handle> handleOf; std::vector<int> protoOf; std::vector<char> aliveL;
	int slot[3]; int adds = 0; int nextEv = 1;
	std::map<int, int> consumed;
	QHarness(Ctx & c, const Cfg & cf) : cfg(cf), ctx(c) {}

	int liveL() const { int n = 0; for(char c : aliveL) n += c; return n; }
	void expectCalls(const std::vector<Call> & want, const std::vector<Call> & got, const char * what) {
		for(auto & c : got) { ctx.obs(c.who * 64 + c.proto * 16 + c.kind); ctx.obs(c.value); }
		if(ctx.failed) return;
		if(!(want == got)) {
			const char * clause = "callbacks-differ";
			for(auto & g : got) if(g.value == -777 || (g.kind == 0 && g.proto != P_VOID && g.value < 0)) clause = "payload-damaged";
			for(auto & g : got) if(g.kind == 1) { bool ok = false; for(auto & w : want) if(w == g) ok = true; if(!ok) clause = "predicate-saw-foreign-event"; }
			ctx.fail(clause, fmt("%s: observed %s, expected %s", what, callsStr(got).c_str(), callsStr(want).c_str()));
		}
	}
	void listenerCalls(const MEv & e, std::vector<Call> & out) { for(int l : listeners[e.proto]) out.push_back(Call{0, l, e.proto, e.proto == P_VOID ? 0 : e.id}); }
	void consume(const MEv & e) { if(++consumed[e.id] > 1) ctx.fail("event-consumed-twice", fmt("event %d consumed twice", e.id)); }

	void addListener(int kind) {
		int id = (int)handleOf.size(); int proto = kind == 4 ? P_INT : kind;
		handleOf.push_back(Handle{-1, {}}); protoOf.push_back(proto); aliveL.push_back(1);
		ctx.log(fmt("appendListener(%s%s) -> L%d", protoName(proto), kind == 4 ? ", callable with int and string" : "", id));
		switch(kind) {
		case 0: handleOf[id] = q->appendListener(5, CbInt(id)); break;
		case 1: handleOf[id] = q->appendListener(5, CbStr(id)); break;
		case 2: handleOf[id] = q->appendListener(5, CbBig(id)); break;
		case 3: handleOf[id] = q->appendListener(5, CbVoid(id)); break;
		case 4: handleOf[id] = q->appendListener(5, CbIntOrStr(id)); break;
		}
		if(handleOf[id].index != proto) ctx.fail("bound-to-wrong-prototype", fmt("callback L%d was bound to prototype index %d, the first prototype it can be called with is %d", id, handleOf[id].index, proto));
		listeners[proto].push_back(id);
		slot[adds % 3] = id; ++adds;
	}
	void removeListener(int id) {
		bool expect = aliveL[id];
		bool got = q->removeListener(5, handleOf[id]);
		ctx.tagStep(got ? "+r1" : "+r0");
		ctx.log(fmt("removeListener(L%d) -> %d", id, (int)got)); ctx.obs(got);
		if(expect) { auto & l = listeners[protoOf[id]]; l.erase(std::find(l.begin(), l.end(), id)); aliveL[id] = 0; }
		if(got != expect) ctx.fail("remove-result", fmt("removeListener(L%d) returned %d, expected %d", id, (int)got, (int)expect));
	}
	void enqueue(int kind) {
		// kind 0..3 exact argument types; 4: char (converts to int); 5: const char* (converts to std::string)
		int proto = kind == 4 ? P_INT : kind == 5 ? P_STR : kind;
		MEv e{nextEv++, proto};
		if(kind == 4) e.id = 60 + (e.id % 2);          // a char value; parity kept for the odd predicate
		ctx.log(fmt("enqueue(%s%s) -> event %d", protoName(proto), kind == 4 ? " from char" : kind == 5 ? " from const char*" : "", e.id));
		switch(kind) {
		case 0: q->enqueue(5, e.id); break;
		case 1: q->enqueue(5, strFor(e.id)); break;
		case 2: q->enqueue(5, Big(e.id)); break;
		case 3: q->enqueue(5); break;
		case 4: q->enqueue(5, (char)e.id); break;
		case 5: { std::string s = strFor(e.id); q->enqueue(5, s.c_str()); break; }
		}
		pending.push_back(e);
	}
	void process(bool one) {
		std::vector<Call> want, got; g_calls = &got;
		std::deque<MEv> batch;
		if(one) { if(!pending.empty()) { batch.push_back(pending.front()); pending.pop_front(); } } else batch.swap(pending);
		for(auto & e : batch) { listenerCalls(e, want); consume(e); }
		bool r = one ? q->processOne() : q->process();
		g_calls = nullptr;
		ctx.log(fmt("%s -> %d", one ? "processOne" : "process", (int)r)); ctx.obs(r);
		expectCalls(want, got, one ? "processOne" : "process");
		if(!ctx.failed && r != !batch.empty()) ctx.fail("result-wrong", fmt("%s returned %d with %zu events", one ? "processOne" : "process", (int)r, batch.size()));
	}
	int reentrantLeft = 0;     // >0: the next predicate call enqueues an int event from inside processIf
	void maybeReenter() { if(reentrantLeft > 0) { --reentrantLeft; HarnessScope hs; int id = nextEv++; ctx.log(fmt("  (from inside the predicate) enqueue(void(int)) -> event %d", id)); q->enqueue(5, id); reentered.push_back(MEv{id, P_INT}); } }
	std::vector<MEv> reentered;
	void processIf(int proto, int verdict, bool reentrant = false) {
		reentrantLeft = reentrant ? 1 : 0; reentered.clear();
		// verdict 0: accept all, 1: refuse all, 2: accept odd ids
		std::vector<Call> want, got; g_calls = &got;
		std::deque<MEv> keep; bool any = false;
		for(auto & e : pending) {
			bool acc = false;
			if(e.proto == proto) {
				want.push_back(Call{1, 0, proto, proto == P_VOID ? 0 : e.id});
				acc = verdict == 0 || (verdict == 2 && e.id % 2 == 1);
			}
			if(acc) { listenerCalls(e, want); consume(e); any = true; } else keep.push_back(e);
		}
		pending.swap(keep);
		bool willAsk = false; for(auto & w : want) if(w.kind == 1) willAsk = true;
		if(!willAsk) reentrantLeft = 0;
		auto decide = [verdict](int id) { return verdict == 0 || (verdict == 2 && id % 2 == 1); };
		bool r = false;
		switch(proto) {
		case P_INT: r = q->processIf([&](int v) { logCall(1, 0, P_INT, v); maybeReenter(); return decide(v); }); break;
		case P_STR: r = q->processIf([&](const std::string & s) { int id = idOfStr(s); logCall(1, 0, P_STR, id); maybeReenter(); return decide(id); }); break;
		case P_BIG: r = q->processIf([&](const Big & b) { int id = b.intact() ? b.t.id : -777; logCall(1, 0, P_BIG, id); maybeReenter(); return decide(id); }); break;
		case P_VOID: r = q->processIf([&]() { logCall(1, 0, P_VOID, 0); return verdict == 0; }); break;
		}
		g_calls = nullptr;
		// events enqueued while processIf ran stay behind the ones it left in place
		for(auto & e : reentered) pending.push_back(e);
		reentrantLeft = 0;
		ctx.log(fmt("processIf(predicate over %s, verdict %d%s) -> %d", protoName(proto), verdict, reentrant ? ", the predicate enqueues once" : "", (int)r)); ctx.obs(r);
		if(proto == P_VOID && verdict == 2) { /* odd has no meaning for void(): treated as refuse-all above */ }
		expectCalls(want, got, "processIf");
		if(!ctx.failed && r != any) ctx.fail("result-wrong", fmt("processIf returned %d, expected %d", (int)r, (int)any));
	}
	void clear() { ctx.log("clearEvents"); q->clearEvents(); for(auto & e : pending) consume(e); pending.clear(); }
	void directDispatch(int kind) {
		int proto = kind == 4 ? P_INT : kind == 5 ? P_STR : kind;
		std::vector<Call> want, got; g_calls = &got;
		MEv e{9000 + kind, proto};
		listenerCalls(e, want);
		switch(kind) {
		case 0: q->dispatch(5, e.id); break;
		case 1: q->dispatch(5, strFor(e.id)); break;
		case 2: q->dispatch(5, Big(e.id)); break;
		case 3: q->dispatch(5); break;
		case 4: { for(auto & w : want) w.value = 65; q->dispatch(5, 'A'); break; }
		case 5: { std::string s = strFor(e.id); q->dispatch(5, s.c_str()); break; }
		}
		g_calls = nullptr;
		ctx.log(fmt("dispatch(%s)", protoName(proto)));
		expectCalls(want, got, "dispatch");
	}

	int menu() const { return 5 + 3 + 6 + 2 + 12 + 1 + 6 + 6; }
	void topOp(Bfs & b, int op) {
		if(op < 5) { if(liveL() >= cfg.maxListeners) b.skip(); addListener(op); return; } op -= 5;
		if(op < 3) { if(slot[op] < 0) b.skip(); removeListener(slot[op]); return; } op -= 3;
		if(op < 6) { if((int)pending.size() >= cfg.K) b.skip(); enqueue(op); return; } op -= 6;
		if(op < 2) { process(op == 1); return; } op -= 2;
		if(op < 12) { int proto = op / 3, v = op % 3; if(proto == P_VOID && v == 2) b.skip(); processIf(proto, v); return; } op -= 12;
		if(op < 1) { clear(); return; } op -= 1;
		if(op < 6) { directDispatch(op); return; } op -= 6;
		// processIf whose predicate enqueues once from inside: prototypes int/string/Big x verdict {refuse, odd}
		if((int)pending.size() >= cfg.K) b.skip();
		processIf(op / 2, 1 + op % 2, true);
	}
	std::string key() {
		std::string k = "P:";
		for(auto & e : pending) k += fmt("%d.%d,", e.proto, e.id % 2);
		k += fmt("|n%d|L:", nextEv % 2);
		for(int p = 0; p < NPROTO; ++p) k += fmt("%zu,", listeners[p].size());
		k += "S:";
		for(int i = 0; i < 3; ++i) k += slot[i] < 0 ? std::string("e,") : (aliveL[slot[i]] ? fmt("%d.%d,", protoOf[slot[i]], (int)(std::find(listeners[protoOf[slot[i]]].begin(), listeners[protoOf[slot[i]]].end(), slot[i]) - listeners[protoOf[slot[i]]].begin())) : std::string("d,"));
		size_t fl = 0;
#ifndef VERIF_NO_PRIVATE
		for(auto it = q->freeList.begin(); it != q->freeList.end(); ++it) ++fl;
#endif
		k += fmt("a%d|F%zu", adds % 3, fl);
#ifndef VERIF_NO_PRIVATE
		// the implementation's pending list as a sequence of prototype indexes: a state holding the right events in another order
		// must not be merged with the ordinary one (on a correct tree this is a function of the model's list and adds no states)
		k += "|O:";
		for(auto it = q->queueList.begin(); it != q->queueList.end(); ++it) k += it->empty() ? std::string("e") : fmt("%d", it->template get<typename Q::QueuedItemBase>().callableIndex);
#endif
		return k;
	}
	void quiescent() {
		checkLedgerErrors(ctx, "quiescent");
		if(ctx.failed) return;
		int wantBig = 0; for(auto & e : pending) if(e.proto == P_BIG) ++wantBig;
		int have = ledger().liveTotal(TC_PAYLOAD, false);
		if(have != wantBig) ctx.fail(have > wantBig ? "ledger-payload-not-released" : "ledger-payload-missing", fmt("%d typed payload objects alive while %d Big events are pending: %s", have, wantBig, ledger().describeLive().c_str()));
		if(q->emptyQueue() != pending.empty() && !ctx.failed) ctx.fail("emptyqueue-wrong", fmt("emptyQueue()=%d with %zu pending", (int)q->emptyQueue(), pending.size()));
	}
	void body(Bfs & b) {
		ledger().reset();
		pending.clear(); for(auto & l : listeners) l.clear(); handleOf.clear(); protoOf.clear(); aliveL.clear(); consumed.clear();
		for(int i = 0; i < 3; ++i) slot[i] = -1;
		adds = 0; nextEv = 1;
		Q queue; q = &queue;
		struct Clear { QHarness * h; ~Clear() { h->handleOf.clear(); h->q = nullptr; } } clr{this};
		b.stepEnd(key());
		for(;;) { int op = b.chooseOp(menu()); topOp(b, op); quiescent(); b.stepEnd(key()); }
	}
	void after() {
		checkLedgerErrors(ctx, "after destruction");
		if(ledger().liveAll() != 0 && !ctx.failed) ctx.fail("ledger-leak-after-destruction", "objects alive after the queue was destroyed: " + ledger().describeLive());
	}
};

// ------------------------------------------------------------------ HeterCallbackList / HeterEventDispatcher harness
template <typename Th, bool Disp>
struct LHarness {
	typedef eventpp::HeterCallbackList<HT, PolEx<Th> > L;
	typedef eventpp::HeterEventDispatcher<int, HT, PolEx<Th> > D;
	typedef typename L::Handle Handle;
	Cfg cfg; Ctx & ctx; L * l = nullptr; D * d = nullptr;
	std::vector<int> order[2][NPROTO];           // per key (dispatcher: 2 keys), per prototype
	std::vector<Handle> handleOf; std::vector<int> protoOf, keyOf; std::vector<char> aliveL;
	int slot[3]; int adds = 0;
	LHarness(Ctx & c, const Cfg & cf) : cfg(cf), ctx(c) {}
	int liveL() const { int n = 0; for(char c : aliveL) n += c; return n; }

	template <typename C> Handle doAdd(int key, int how, const C & c, const Handle & before) {
		if(Disp) { int k = 5 + key; return how == 0 ? d->appendListener(k, c) : how == 1 ? d->prependListener(k, c) : d->insertListener(k, c, before); }
		return how == 0 ? l->append(c) : how == 1 ? l->prepend(c) : l->insert(c, before);
	}
	void add(int key, int kind, int how) {
		int id = (int)handleOf.size(); int proto = kind == 4 ? P_INT : kind;
		// insert: before slot 0's callback (same key); it lands before it only if the prototype matches, otherwise at the back
		Handle before{-1, {}}; int beforeId = -1;
		if(how == 2) { if(slot[0] >= 0 && keyOf[slot[0]] == key) { before = handleOf[slot[0]]; beforeId = slot[0]; } }
		handleOf.push_back(Handle{-1, {}}); protoOf.push_back(proto); keyOf.push_back(key); aliveL.push_back(1);
		ctx.log(fmt("%s(key %d, %s) -> L%d", how == 0 ? "append" : how == 1 ? "prepend" : "insert", key, protoName(proto), id));
		switch(kind) {
		case 0: handleOf[id] = doAdd(key, how, CbInt(id), before); break;
		case 1: handleOf[id] = doAdd(key, how, CbStr(id), before); break;
		case 2: handleOf[id] = doAdd(key, how, CbBig(id), before); break;
		case 3: handleOf[id] = doAdd(key, how, CbVoid(id), before); break;
		case 4: handleOf[id] = doAdd(key, how, CbIntOrStr(id), before); break;
		}
		if(handleOf[id].index != proto) ctx.fail("bound-to-wrong-prototype", fmt("callback L%d was bound to prototype index %d, the first prototype it can be called with is %d", id, handleOf[id].index, proto));
		auto & o = order[key][proto];
		if(how == 0) o.push_back(id);
		else if(how == 1) o.insert(o.begin(), id);
		else {
			auto it = (beforeId >= 0 && aliveL[beforeId] && protoOf[beforeId] == proto) ? std::find(o.begin(), o.end(), beforeId) : o.end();
			o.insert(it, id);
		}
		slot[adds % 3] = id; ++adds;
	}
	void remove(int id) {
		bool expect = aliveL[id];
		bool got = Disp ? d->removeListener(5 + keyOf[id], handleOf[id]) : l->remove(handleOf[id]);
		ctx.tagStep(got ? "+r1" : "+r0");
		ctx.log(fmt("remove(L%d) -> %d", id, (int)got)); ctx.obs(got);
		if(expect) { auto & o = order[keyOf[id]][protoOf[id]]; o.erase(std::find(o.begin(), o.end(), id)); aliveL[id] = 0; }
		if(got != expect) ctx.fail("remove-result", fmt("remove(L%d) returned %d, expected %d", id, (int)got, (int)expect));
	}
	void invoke(int key, int kind) {
		int proto = kind == 4 ? P_INT : kind == 5 ? P_STR : kind;
		std::vector<Call> want, got; g_calls = &got;
		int val = kind == 4 ? 65 : 4000 + kind;
		for(int id : order[key][proto]) want.push_back(Call{0, id, proto, proto == P_VOID ? 0 : val});
		int k = 5 + key;
		switch(kind) {
		case 0: if(Disp) d->dispatch(k, val); else (*l)(val); break;
		case 1: if(Disp) d->dispatch(k, strFor(val)); else (*l)(strFor(val)); break;
		case 2: if(Disp) d->dispatch(k, Big(val)); else (*l)(Big(val)); break;
		case 3: if(Disp) d->dispatch(k); else (*l)(); break;
		case 4: if(Disp) d->dispatch(k, 'A'); else (*l)('A'); break;
		case 5: { std::string s = strFor(val); if(Disp) d->dispatch(k, s.c_str()); else (*l)(s.c_str()); break; }
		}
		g_calls = nullptr;
		ctx.log(fmt("invoke(key %d, %s%s)", key, protoName(proto), kind >= 4 ? " via conversion" : ""));
		for(auto & c : got) { ctx.obs(c.who * 64 + c.proto); ctx.obs(c.value); }
		if(!(want == got)) ctx.fail("callbacks-differ", fmt("invocation with %s arguments reached %s, expected %s", protoName(proto), callsStr(got).c_str(), callsStr(want).c_str()));
		// enumeration agrees too
		std::vector<int> en;
		auto grab = [&](int) {};
		(void)grab;
		if(proto == P_INT) { if(Disp) d->template forEach<void(int)>(k, [&](const std::function<void(int)> &) { en.push_back(1); }); else l->template forEach<void(int)>([&](const std::function<void(int)> &) { en.push_back(1); }); }
		if(proto == P_STR) { if(Disp) d->template forEach<void(const std::string &)>(k, [&](const std::function<void(const std::string &)> &) { en.push_back(1); }); else l->template forEach<void(const std::string &)>([&](const std::function<void(const std::string &)> &) { en.push_back(1); }); }
		// forEachIf stops after the first callback whose functor returns false, and reports that
		if((proto == P_INT || proto == P_STR) && !ctx.failed) {
			size_t visited = 0; bool r;
			if(proto == P_INT) { if(Disp) r = d->template forEachIf<void(int)>(k, [&](const std::function<void(int)> &) { return ++visited < 2; }); else r = l->template forEachIf<void(int)>([&](const std::function<void(int)> &) { return ++visited < 2; }); }
			else { if(Disp) r = d->template forEachIf<void(const std::string &)>(k, [&](const std::function<void(const std::string &)> &) { return ++visited < 2; }); else r = l->template forEachIf<void(const std::string &)>([&](const std::function<void(const std::string &)> &) { return ++visited < 2; }); }
			size_t have = order[key][proto].size();
			if(visited != std::min<size_t>(have, 2) || r != (have < 2)) ctx.fail("foreach-differs", fmt("forEachIf over %s (stop at the 2nd) visited %zu callbacks and returned %d, the model holds %zu", protoName(proto), visited, (int)r, have));
		}
		if((proto == P_INT || proto == P_STR) && en.size() != order[key][proto].size() && !ctx.failed) ctx.fail("foreach-differs", fmt("forEach over %s visited %zu callbacks, the model holds %zu", protoName(proto), en.size(), order[key][proto].size()));
	}
	int nKeys() const { return Disp ? 2 : 1; }
	int menu() const { return nKeys() * 15 + 3 + nKeys() * 6 + 1; }
	void topOp(Bfs & b, int op) {
		int nk = nKeys();
		if(op < nk * 15) { int key = op / 15, r = op % 15; if(liveL() >= cfg.maxListeners) b.skip(); add(key, r / 3, r % 3); return; } op -= nk * 15;
		if(op < 3) { if(slot[op] < 0) b.skip(); remove(slot[op]); return; } op -= 3;
		if(op < nk * 6) { invoke(op / 6, op % 6); return; } op -= nk * 6;
		bool e = Disp ? !d->hasAnyListener(5) : l->empty();
		bool expect = true; for(int p = 0; p < NPROTO; ++p) if(!order[0][p].empty()) expect = false;
		ctx.log(fmt("empty -> %d", (int)e));
		if(e != expect) ctx.fail("empty-wrong", fmt("empty/hasAnyListener says empty=%d, the model says %d", (int)e, (int)expect));
	}
	std::string key() {
		std::string k;
		for(int key = 0; key < nKeys(); ++key) { for(int p = 0; p < NPROTO; ++p) k += fmt("%zu,", order[key][p].size()); k += "|"; }
		for(int i = 0; i < 3; ++i) {
			if(slot[i] < 0) k += "e,"; else if(!aliveL[slot[i]]) k += fmt("d%d.%d,", keyOf[slot[i]], protoOf[slot[i]]);
			else { auto & o = order[keyOf[slot[i]]][protoOf[slot[i]]]; k += fmt("%d.%d.%d,", keyOf[slot[i]], protoOf[slot[i]], (int)(std::find(o.begin(), o.end(), slot[i]) - o.begin())); }
		}
		k += fmt("a%d", adds % 3);
		// what the implementation enumerates per key and prototype, relative to the model's order (one token when they agree)
		for(int key = 0; key < nKeys(); ++key) {
			enumKey<void(int)>(k, key, P_INT);
			enumKey<void(const std::string &)>(k, key, P_STR);
		}
		return k;
	}
	template <typename Proto>
	void enumKey(std::string & k, int key, int proto) {
		std::string ord; bool same = true; size_t pos = 0;
		auto f = [&](const Handle & h, const std::function<Proto> &) {
			int id = -1; for(size_t i = 0; i < handleOf.size(); ++i) if(handleOf[i].homoHandle.lock() == h.homoHandle.lock() && handleOf[i].index == h.index) id = (int)i;
			if(pos >= order[key][proto].size() || order[key][proto][pos] != id) same = false;
			ord += fmt("%d,", id); ++pos;
		};
		enumDo<Proto>(key, f, std::integral_constant<bool, Disp>());
		if(pos != order[key][proto].size()) same = false;
		k += same ? std::string("|=") : "|E:" + ord;
	}
	template <typename Proto, typename F> void enumDo(int key, F & f, std::true_type) { d->template forEach<Proto>(key, f); }
	template <typename Proto, typename F> void enumDo(int, F & f, std::false_type) { l->template forEach<Proto>(f); }
	void body(Bfs & b) {
		ledger().reset();
		for(auto & kk : order) for(auto & o : kk) o.clear();
		handleOf.clear(); protoOf.clear(); keyOf.clear(); aliveL.clear();
		for(int i = 0; i < 3; ++i) slot[i] = -1;
		adds = 0;
		L list; D disp; l = &list; d = &disp;
		struct Clear { LHarness * h; ~Clear() { h->handleOf.clear(); } } clr{this};
		b.stepEnd(key());
		for(;;) {
			int op = b.chooseOp(menu()); topOp(b, op);
			checkLedgerErrors(ctx, "quiescent");
			if(!ctx.failed && ledger().liveTotal(TC_CALLBACK, false) != liveL()) ctx.fail("ledger-callback-count", fmt("%d callback objects alive, the model holds %d", ledger().liveTotal(TC_CALLBACK, false), liveL()));
			b.stepEnd(key());
		}
	}
	void after() {
		checkLedgerErrors(ctx, "after destruction");
		if(ledger().liveAll() != 0 && !ctx.failed) ctx.fail("ledger-leak-after-destruction", "objects alive after destruction: " + ledger().describeLive());
	}
};

// ------------------------------------------------------------------ include-event mode with a movable key type
struct PolIncl { using ArgumentPassingMode = eventpp::ArgumentPassingIncludeEvent; };
typedef eventpp::HeterTuple<void(const std::string &), void(const std::string &, int)> HTI;
// exclude-event mode with a getEvent policy that derives the event from a movable field of an argument
struct MsgX { std::string key; int v; };
struct PolExGet { static std::string getEvent(const std::string &, const MsgX & m) { return m.key; } };
typedef eventpp::HeterTuple<void(const MsgX &), void(int)> HTX;
struct InclHarness {
	Ctx & ctx;
	InclHarness(Ctx & c) : ctx(c) {}
	// one execution per (class, value category, arity); enumerated by free choices
	void body(Bfs & b) {
		ledger().reset();
		b.stepEnd("start");
		int cls = b.chooseOp(4);               // 0 HeterEventDispatcher::dispatch, 1 HeterEventQueue::enqueue+process (include mode); 2, 3: the same in exclude mode with a getEvent policy
		int cat = ctx.ex.choose(4, 4, K_OP);   // lvalue, const lvalue, prvalue, std::move
		int ar = ctx.ex.choose(2, 2, K_OP);    // which prototype
		const std::string keyText = "the-event-key-that-is-longer-than-the-sso-buffer";
		const std::string otherKey = "another-key-also-longer-than-the-small-string-buffer";
		std::vector<std::string> got;
		auto l1 = [&](const std::string & k) { got.push_back("A:" + k); };
		auto l2 = [&](const std::string & k, int v) { got.push_back(fmt("B:%s:%d", k.c_str(), v)); };
		auto wrong = [&](const std::string & k) { got.push_back("WRONG:" + k); };
		auto wrong2 = [&](const std::string & k, int) { got.push_back("WRONG:" + k); };
		std::string lv = keyText; const std::string clv = keyText;
		static const char * catName[] = {"lvalue", "const lvalue", "prvalue", "std::move(lvalue)"};
		if(cls >= 2) {
			// the separately passed first argument is ignored by the policy; the event is the message's key field
			auto lm = [&](const MsgX & m) { got.push_back("A:" + m.key); };
			auto wrongm = [&](const MsgX & m) { got.push_back("WRONG:" + m.key); };
			MsgX mlv{keyText, 7}; const MsgX mclv{keyText, 7};
			ctx.log(fmt("%s (exclude-event mode, getEvent policy reading a field of the message) with the message passed as %s", cls == 3 ? "HeterEventQueue::enqueue+process" : "HeterEventDispatcher::dispatch", catName[cat]));
			if(cls == 2) {
				eventpp::HeterEventDispatcher<std::string, HTX, PolExGet> d;
				d.appendListener(keyText, lm); d.appendListener(std::string(), wrongm); d.appendListener(otherKey, wrongm);
				if(cat == 0) d.dispatch(std::string("ignored"), mlv); else if(cat == 1) d.dispatch(std::string("ignored"), mclv); else if(cat == 2) d.dispatch(std::string("ignored"), MsgX{keyText, 7}); else d.dispatch(std::string("ignored"), std::move(mlv));
			}
			else {
				eventpp::HeterEventQueue<std::string, HTX, PolExGet> q;
				q.appendListener(keyText, lm); q.appendListener(std::string(), wrongm); q.appendListener(otherKey, wrongm);
				if(cat == 0) q.enqueue(std::string("ignored"), mlv); else if(cat == 1) q.enqueue(std::string("ignored"), mclv); else if(cat == 2) q.enqueue(std::string("ignored"), MsgX{keyText, 7}); else q.enqueue(std::string("ignored"), std::move(mlv));
				q.process();
			}
			std::vector<std::string> want(1, "A:" + keyText);
			for(auto & g : got) ctx.obsStr(g);
			if(got != want) { std::string g; for(auto & x : got) g += x + " "; ctx.fail("exclude-mode-policy-key-lost", fmt("%s with the message passed as %s reached [%s] instead of the listener registered for the message's key", cls == 3 ? "enqueue+process" : "dispatch", catName[cat], g.c_str())); }
			if(cat == 0 && mlv.key != keyText) ctx.fail("caller-lvalue-modified", "the caller's lvalue message was modified");
			b.stepEnd(fmt("done%d.%d.%d", cls, cat, ar));
		}
		ctx.log(fmt("%s with the key passed as %s, prototype %d", cls ? "HeterEventQueue::enqueue+process" : "HeterEventDispatcher::dispatch", catName[cat], ar));
		if(cls == 0) {
			eventpp::HeterEventDispatcher<std::string, HTI, PolIncl> d;
			d.appendListener(keyText, l1); d.appendListener(keyText, l2); d.appendListener(otherKey, wrong); d.appendListener(otherKey, wrong2); d.appendListener(std::string(), wrong); d.appendListener(std::string(), wrong2);
			if(ar == 0) { if(cat == 0) d.dispatch(lv); else if(cat == 1) d.dispatch(clv); else if(cat == 2) d.dispatch(std::string(keyText)); else d.dispatch(std::move(lv)); }
			else { if(cat == 0) d.dispatch(lv, 7); else if(cat == 1) d.dispatch(clv, 7); else if(cat == 2) d.dispatch(std::string(keyText), 7); else d.dispatch(std::move(lv), 7); }
		}
		else {
			eventpp::HeterEventQueue<std::string, HTI, PolIncl> q;
			q.appendListener(keyText, l1); q.appendListener(keyText, l2); q.appendListener(otherKey, wrong); q.appendListener(otherKey, wrong2); q.appendListener(std::string(), wrong); q.appendListener(std::string(), wrong2);
			if(ar == 0) { if(cat == 0) q.enqueue(lv); else if(cat == 1) q.enqueue(clv); else if(cat == 2) q.enqueue(std::string(keyText)); else q.enqueue(std::move(lv)); }
			else { if(cat == 0) q.enqueue(lv, 7); else if(cat == 1) q.enqueue(clv, 7); else if(cat == 2) q.enqueue(std::string(keyText), 7); else q.enqueue(std::move(lv), 7); }
			q.process();
		}
		std::vector<std::string> want;
		want.push_back(ar == 0 ? "A:" + keyText : fmt("B:%s:7", keyText.c_str()));
		for(auto & g : got) ctx.obsStr(g);
		if(got != want) {
			std::string g; for(auto & x : got) g += x + " ";
			ctx.fail("include-mode-key-lost", fmt("%s with the key passed as %s reached [%s] instead of the listener registered for that key with the key intact", cls ? "enqueue+process" : "dispatch", catName[cat], g.c_str()));
		}
		if(cat < 2 && lv != keyText) ctx.fail("caller-lvalue-modified", "the caller's lvalue key was modified");
		b.stepEnd(fmt("done%d.%d.%d", cls, cat, ar));
		b.skip();
	}
};

// ------------------------------------------------------------------ argument types callable with several prototypes
// HeterTuple<void(const std::string&), void(const char*)>: a `const char*` argument is callable with both prototypes and must
// select the FIRST listed one; a callable taking `const char*` can only be bound to the second prototype.
typedef eventpp::HeterTuple<void(const std::string &), void(const char *)> HTO;
struct OverlapHarness {
	Ctx & ctx;
	OverlapHarness(Ctx & c) : ctx(c) {}
	void body(Bfs & b) {
		ledger().reset();
		b.stepEnd("start");
		int cls = b.chooseOp(3);                // HeterCallbackList, HeterEventDispatcher, HeterEventQueue
		int nS = ctx.ex.choose(3, 3, K_OP);     // number of std::string callbacks
		int nC = ctx.ex.choose(3, 3, K_OP);     // number of const char* callbacks
		int arg = ctx.ex.choose(3, 3, K_OP);    // invoke with: std::string, const char*, string literal
		std::vector<std::string> got, want;
		const std::string text = "overlap-argument-longer-than-the-small-string-buffer";
		auto cs = [&](int i) { return [&got, i](const std::string & s) { got.push_back(fmt("S%d:%s", i, s.c_str())); }; };
		auto cc = [&](int i) { return [&got, i](const char * s) { got.push_back(fmt("C%d:%s", i, s)); }; };
		static const char * an[] = {"std::string", "const char*", "string literal"};
		std::string desc = fmt("%s with %d string callbacks and %d const char* callbacks, invoked with a %s", cls == 0 ? "HeterCallbackList" : cls == 1 ? "HeterEventDispatcher" : "HeterEventQueue", nS, nC, an[arg]);
		ctx.log(desc);
		const char * cstr = text.c_str();
		if(cls == 0) {
			eventpp::HeterCallbackList<HTO> l;
			for(int i = 0; i < nS; ++i) { auto h = l.append(cs(i)); if(h.index != 0) ctx.fail("bound-to-wrong-prototype", "a std::string callback was not bound to the first prototype"); }
			for(int i = 0; i < nC; ++i) { auto h = l.append(cc(i)); if(h.index != 1) ctx.fail("bound-to-wrong-prototype", "a const char* callback was not bound to the second prototype"); }
			if(arg == 0) l(text); else if(arg == 1) l(cstr); else l("overlap-argument-longer-than-the-small-string-buffer");
		}
		else if(cls == 1) {
			eventpp::HeterEventDispatcher<int, HTO> d;
			for(int i = 0; i < nS; ++i) d.appendListener(1, cs(i));
			for(int i = 0; i < nC; ++i) d.appendListener(1, cc(i));
			if(arg == 0) d.dispatch(1, text); else if(arg == 1) d.dispatch(1, cstr); else d.dispatch(1, "overlap-argument-longer-than-the-small-string-buffer");
		}
		else {
			eventpp::HeterEventQueue<int, HTO> q;
			for(int i = 0; i < nS; ++i) q.appendListener(1, cs(i));
			for(int i = 0; i < nC; ++i) q.appendListener(1, cc(i));
			if(arg == 0) q.enqueue(1, text); else if(arg == 1) q.enqueue(1, cstr); else q.enqueue(1, "overlap-argument-longer-than-the-small-string-buffer");
			q.process();
		}
		// every argument form is callable with the first prototype: exactly the std::string callbacks run, in order
		for(int i = 0; i < nS; ++i) want.push_back(fmt("S%d:%s", i, text.c_str()));
		for(auto & g : got) ctx.obsStr(g);
		if(got != want) { std::string g; for(auto & x : got) g += x.substr(0, 12) + " "; ctx.fail("first-prototype-not-selected", fmt("%s reached [%s] instead of the %d callbacks of the first listed prototype", desc.c_str(), g.c_str(), nS)); }
		b.stepEnd(fmt("done%d.%d.%d.%d", cls, nS, nC, arg));
	}
};

// ------------------------------------------------------------------ value categories select the prototype
// Prototypes void(VMsg&) and void(VMsg), in this order: a non-const lvalue is callable with the first, a const lvalue and an
// rvalue only with the second. Every entry point (invocation, dispatch in exclude-event and include-event form with a
// getEvent policy, enqueue + process) must route by the argument's type AND value category, and hand over intact values.
struct VMsg { int key; int tag; std::string text; };   // text lives on the heap: a moved-from VMsg shows as an empty text
typedef eventpp::HeterTuple<void(VMsg &), void(VMsg)> HTV;
struct PolVInclude {
	using ArgumentPassingMode = eventpp::ArgumentPassingIncludeEvent;
	static int getEvent(VMsg m) { return m.key; }     // BY VALUE: a library that forwards its first argument into the policy moves from it
};
struct ValueCategoryHarness {
	Ctx & ctx;
	ValueCategoryHarness(Ctx & c) : ctx(c) {}
	void processIfShapes(Bfs & b, int shape, int cat, const char * catName);
	void body(Bfs & b) {
		ledger().reset();
		b.stepEnd("start");
		int cls = b.chooseOp(9);      // 6-8: HeterEventQueue::processIf over a BY-VALUE prototype, predicate taking the argument by value / by const& / refusing first; 0-5: list, dispatcher (exclude form), dispatcher (include form + getEvent), queue (exclude), queue (include), queue's inherited dispatch (include)
		int cat = ctx.ex.choose(3, 3, K_OP);     // lvalue, const lvalue, rvalue
		std::vector<std::string> got;
		auto byRef = [&got](VMsg & m) { got.push_back(fmt("ref:%d.%d.%zu", m.key, m.tag, m.text.size())); };
		auto byVal = [&got](VMsg && m) { got.push_back(fmt("val:%d.%d.%zu", m.key, m.tag, m.text.size())); };   // not callable with an lvalue: binds to the second prototype
		static const char * cn[] = {"HeterCallbackList invocation", "HeterEventDispatcher::dispatch(event, arg)", "HeterEventDispatcher::dispatch(arg) with the include-event policy", "HeterEventQueue enqueue(event, arg) + process", "HeterEventQueue enqueue(arg) + process with the include-event policy", "HeterEventQueue::dispatch(arg) with the include-event policy"};
		static const char * an[] = {"a non-const lvalue", "a const lvalue", "an rvalue"};
		if(cls >= 6) { processIfShapes(b, cls - 6, cat, an[cat]); return; }
		std::string desc = fmt("%s with %s", cn[cls], an[cat]);
		ctx.log(desc);
		const std::string text(40, 'x');
		VMsg lv{7, 42, text}; const VMsg clv{7, 42, text};
		#define VERIF_CALL(F) do { if(cat == 0) F(lv); else if(cat == 1) F(clv); else F(VMsg{7, 42, text}); } while(0)
		#define VERIF_CALL2(F, K) do { if(cat == 0) F(K, lv); else if(cat == 1) F(K, clv); else F(K, VMsg{7, 42, text}); } while(0)
		if(cls == 0) { eventpp::HeterCallbackList<HTV> l; l.append(byRef); l.append(byVal); VERIF_CALL(l); }
		else if(cls == 1) { eventpp::HeterEventDispatcher<int, HTV> d; d.appendListener(7, byRef); d.appendListener(7, byVal); VERIF_CALL2(d.dispatch, 7); }
		else if(cls == 2) { eventpp::HeterEventDispatcher<int, HTV, PolVInclude> d; d.appendListener(7, byRef); d.appendListener(7, byVal); VERIF_CALL(d.dispatch); }
		else if(cls == 3) { eventpp::HeterEventQueue<int, HTV> q; q.appendListener(7, byRef); q.appendListener(7, byVal); VERIF_CALL2(q.enqueue, 7); q.process(); }
		else if(cls == 4) { eventpp::HeterEventQueue<int, HTV, PolVInclude> q; q.appendListener(7, byRef); q.appendListener(7, byVal); VERIF_CALL(q.enqueue); q.process(); }
		else { eventpp::HeterEventQueue<int, HTV, PolVInclude> q; q.appendListener(7, byRef); q.appendListener(7, byVal); VERIF_CALL(q.dispatch); }
		#undef VERIF_CALL
		#undef VERIF_CALL2
		std::vector<std::string> want{cat == 0 ? "ref:7.42.40" : "val:7.42.40"};
		for(auto & g : got) ctx.obsStr(g);
		if(got != want) {
			std::string g; for(auto & x : got) g += x + " ";
			bool routed = got.size() == 1 && got[0].substr(0, 8) == want[0].substr(0, 8);     // right prototype, damaged value
			ctx.fail(routed ? "argument-not-intact" : "first-prototype-not-selected", fmt("%s reached [%s], expected [%s]%s", desc.c_str(), g.c_str(), want[0].c_str(), routed ? " (the text was moved from)" : ""));
		}
		if(lv.key != 7 || lv.tag != 42 || lv.text.size() != 40) ctx.fail("caller-lvalue-modified", desc + ": the caller's lvalue was modified or moved from");
		b.stepEnd(fmt("done%d.%d", cls, cat));
	}
};

// processIf hands the stored arguments to the predicate and THEN dispatches the same stored object: whatever the predicate's
// parameter shape (by value, by const&), the listeners - by value and by const& - must still receive the intact event
typedef eventpp::HeterTuple<void(VMsg), void(int)> HTV1;
inline void ValueCategoryHarness::processIfShapes(Bfs & b, int shape, int cat, const char * catName) {
	static const char * sn[] = {"processIf(predicate taking the argument by value, accepting)", "processIf(predicate taking it by const&, accepting)", "processIf(by-value predicate refusing); processIf(by-value predicate accepting)"};
	std::string desc = fmt("HeterEventQueue<void(VMsg)> enqueue(%s) + %s", catName, sn[shape]);
	ctx.log(desc);
	const std::string text(40, 'x');
	VMsg lv{7, 42, text}; const VMsg clv{7, 42, text};
	std::vector<std::string> got;
	eventpp::HeterEventQueue<int, HTV1> q;
	q.appendListener(7, [&got](VMsg m) { got.push_back(fmt("L1:%d.%d.%zu", m.key, m.tag, m.text.size())); });
	q.appendListener(7, [&got](const VMsg & m) { got.push_back(fmt("L2:%d.%d.%zu", m.key, m.tag, m.text.size())); });
	if(cat == 0) q.enqueue(7, lv); else if(cat == 1) q.enqueue(7, clv); else q.enqueue(7, VMsg{7, 42, text});
	q.enqueue(7, 5);
	bool r = false;
	if(shape == 0) r = q.processIf([&got](VMsg m) { got.push_back(fmt("P:%zu", m.text.size())); return true; });
	else if(shape == 1) r = q.processIf([&got](const VMsg & m) { got.push_back(fmt("P:%zu", m.text.size())); return true; });
	else { q.processIf([&got](VMsg m) { got.push_back(fmt("P:%zu", m.text.size())); return false; }); r = q.processIf([&got](VMsg m) { got.push_back(fmt("P:%zu", m.text.size())); return true; }); }
	std::vector<std::string> want;
	if(shape == 2) want.push_back("P:40");
	want.push_back("P:40"); want.push_back("L1:7.42.40"); want.push_back("L2:7.42.40");
	for(auto & g : got) ctx.obsStr(g);
	if(got != want) { std::string g; for(auto & x : got) g += x + " "; std::string w; for(auto & x : want) w += x + " "; ctx.fail("argument-not-intact", fmt("%s observed [%s], expected [%s]", desc.c_str(), g.c_str(), w.c_str())); }
	if(!r && !ctx.failed) ctx.fail("result-wrong", desc + ": processIf returned false although it dispatched an event");
	if(lv.text.size() != 40) ctx.fail("caller-lvalue-modified", desc + ": the caller's lvalue was moved from");
	b.stepEnd(fmt("done-pif%d.%d", shape, cat));
}

template <typename H>
static void addUnit(const std::string & name, int minTier, Cfg cfg, int dq, int dt) {
	Unit u; u.name = name; u.minTier = minTier;
	u.run = [=](Ctx & ctx, UnitReport & rep, int tier) {
		H h(ctx, cfg);
		BfsOptions o; o.keyIncludesLastOp = true; o.maxDepth = tier ? dt : dq; o.innerBudget = 0;
		Bfs b(ctx, o);
		b.run([&](Bfs & bb) { h.body(bb); }, [&]() { h.after(); });
		fillBfsReport(rep, b.res);
		rep.str["config"] = fmt("%s K=%d listeners<=%d depth=%d", name.c_str(), cfg.K, cfg.maxListeners, o.maxDepth);
	};
	u.replay = [=](Ctx & ctx, const std::vector<int> & seq) { H h(ctx, cfg); replayBody(ctx, seq, [&](Bfs & bb) { h.body(bb); }, [&]() { h.after(); }); };
	units().push_back(u);
}

#ifndef VERIF_SUB
#define VERIF_SUB -1
#endif

// ------------------------------------------------------------------ arity matrix for the heterogeneous queue
// prototypes of 1, 3, 5 and 6 int arguments in one HeterEventQueue: every position carries a distinct value and every
// consuming call form must hand exactly those values to the listener (and predicate) of the matching prototype
struct ArityHarness {
	typedef std::vector<int> Args;
	typedef eventpp::HeterEventQueue<int, eventpp::HeterTuple<void(int), void(int, int, int), void(int, int, int, int, int), void(int, int, int, int, int, int)> > Q;
	Ctx & ctx; long evals = 0;
	std::vector<Args> seen, pred;
	explicit ArityHarness(Ctx & c) : ctx(c) {}
	static std::string show(const std::vector<Args> & v) { std::string s; for(auto & a : v) { s += "("; for(size_t i = 0; i < a.size(); ++i) s += fmt("%s%d", i ? "," : "", a[i]); s += ") "; } return s; }
	void expect(const char * mode, const char * what, const std::vector<Args> & got, const std::vector<Args> & want) {
		++evals;
		if(got != want && !ctx.failed) ctx.fail("arity-arguments-differ", fmt("HeterEventQueue, %s: %s received %s, expected %s", mode, what, show(got).c_str(), show(want).c_str()));
	}
	void fill(Q & q) {
		q.appendListener(5, [this](int a) { seen.push_back(Args{a}); });
		q.appendListener(5, [this](int a, int b, int c) { seen.push_back(Args{a, b, c}); });
		q.appendListener(5, [this](int a, int b, int c, int d, int e) { seen.push_back(Args{a, b, c, d, e}); });
		q.appendListener(5, [this](int a, int b, int c, int d, int e, int f) { seen.push_back(Args{a, b, c, d, e, f}); });
		q.enqueue(5, 11); q.enqueue(5, 21, 22, 23); q.enqueue(5, 31, 32, 33, 34, 35); q.enqueue(5, 41, 42, 43, 44, 45, 46);
	}
	void run() {
		const std::vector<Args> all = {{11}, {21, 22, 23}, {31, 32, 33, 34, 35}, {41, 42, 43, 44, 45, 46}};
		{ Q q; seen.clear(); fill(q); q.process(); expect("process", "the listeners", seen, all); }
		{ Q q; seen.clear(); fill(q); for(int i = 0; i < 4; ++i) q.processOne(); expect("processOne x4", "the listeners", seen, all); }
		{ Q q; seen.clear(); pred.clear(); fill(q);
		  q.processIf([this](int a, int b, int c) { pred.push_back(Args{a, b, c}); return true; });
		  expect("processIf(3-argument predicate)", "the predicate", pred, {{21, 22, 23}}); expect("processIf(3-argument predicate)", "the listeners", seen, {{21, 22, 23}});
		  pred.clear();
		  q.processIf([this](int a, int b, int c, int d, int e) { pred.push_back(Args{a, b, c, d, e}); return false; });
		  expect("processIf(5-argument predicate, refusing)", "the predicate", pred, {{31, 32, 33, 34, 35}});
		  q.process(); expect("processIf then process", "the listeners", seen, {{21, 22, 23}, {11}, {31, 32, 33, 34, 35}, {41, 42, 43, 44, 45, 46}}); }
		ctx.executions = evals;
	}
};
#define SEL(s) (VERIF_SUB < 0 || VERIF_SUB == (s))
using ST = eventpp::SingleThreading;
using MT = eventpp::MultipleThreading;
static struct Register {
	Register() {
		Cfg c;
#if SEL(0)
		addUnit<QHarness<MT> >("C14/HeterEventQueue/multi", 0, c, 4, 8);
#endif
#if SEL(1)
		addUnit<QHarness<ST> >("C14/HeterEventQueue/single", 0, c, 4, 8);
#endif
#if SEL(2)
		addUnit<LHarness<MT, false> >("C14/HeterCallbackList/multi", 0, c, 5, 10);
		addUnit<LHarness<ST, true> >("C14/HeterEventDispatcher/single", 0, c, 4, 7);
#endif
#if SEL(3)
		{
			Unit u; u.name = "C14/include-mode-key-value-categories"; u.minTier = 0;
			u.run = [](Ctx & ctx, UnitReport & rep, int) {
				InclHarness h(ctx); BfsOptions o; o.keyIncludesLastOp = true; o.maxDepth = 1; Bfs b(ctx, o);
				b.run([&](Bfs & bb) { h.body(bb); }, nullptr);
				fillBfsReport(rep, b.res);
				rep.str["config"] = "HeterEventDispatcher/HeterEventQueue<std::string, ..., ArgumentPassingIncludeEvent>: key as lvalue/const lvalue/prvalue/std::move x 2 prototypes";
			};
			u.replay = [](Ctx & ctx, const std::vector<int> & seq) { InclHarness h(ctx); replayBody(ctx, seq, [&](Bfs & bb) { h.body(bb); }, nullptr); };
			units().push_back(u);
		}
		{
			Unit u; u.name = "C14/value-categories"; u.minTier = 0;
			u.run = [](Ctx & ctx, UnitReport & rep, int) {
				ValueCategoryHarness h(ctx); BfsOptions o; o.maxDepth = 1; Bfs b(ctx, o);
				b.run([&](Bfs & bb) { h.body(bb); }, nullptr);
				fillBfsReport(rep, b.res);
				rep.str["config"] = "HeterTuple<void(VMsg&), void(VMsg)>: 6 entry points x {non-const lvalue, const lvalue, rvalue}";
			};
			u.replay = [](Ctx & ctx, const std::vector<int> & seq) { ValueCategoryHarness h(ctx); replayBody(ctx, seq, [&](Bfs & bb) { h.body(bb); }, nullptr); };
			units().push_back(u);
		}
		{
			Unit u; u.name = "C14/arity-matrix"; u.minTier = 0;
			u.run = [](Ctx & ctx, UnitReport & rep, int) { ctx.ex.beginExecution(); ArityHarness h(ctx); h.run(); rep.num["executions"] = (double)h.evals; rep.str["config"] = "HeterEventQueue with prototypes of 1, 3, 5, 6 int arguments x {process, processOne, processIf}: complete enumeration"; };
			u.replay = [](Ctx & ctx, const std::vector<int> &) { ctx.tracing = true; ArityHarness h(ctx); h.run(); };
			units().push_back(u);
		}
		{
			Unit u; u.name = "C14/overlapping-prototypes"; u.minTier = 0;
			u.run = [](Ctx & ctx, UnitReport & rep, int) {
				OverlapHarness h(ctx); BfsOptions o; o.maxDepth = 1; Bfs b(ctx, o);
				b.run([&](Bfs & bb) { h.body(bb); }, nullptr);
				fillBfsReport(rep, b.res);
				rep.str["config"] = "HeterTuple<void(const std::string&), void(const char*)>: 3 classes x 0..2 callbacks per prototype x 3 argument forms";
			};
			u.replay = [](Ctx & ctx, const std::vector<int> & seq) { OverlapHarness h(ctx); replayBody(ctx, seq, [&](Bfs & bb) { h.body(bb); }, nullptr); };
			units().push_back(u);
		}
#endif
	}
} reg;

VERIF_MAIN("heter")
