// Engine H harness for EventQueue single-threaded histories:
//   C05  every queued event consumed exactly once, in FIFO order
//   C13  OrderedQueueList: comparator order, stable, exactly once
//   C11  (sequential part) queue seen as non-empty from inside listeners
//   C08  (queue part) ledger of payloads
// The reference model runs in lock-step as an explicit "what callback must come next" machine.
#define VERIF_DEFINE_HOOKS
#include "../fw/core.h"
#include "../fw/ledger.h"
#include "../fw/sched.h"
#include <eventpp/eventqueue.h>
#include <eventpp/utilities/orderedqueuelist.h>
#include <deque>

using namespace verif;

enum CallKind { CK_PROCESS, CK_PROCESS_ONE, CK_PROCESS_IF, CK_PROCESS_UNTIL, CK_DISPATCH_TAKEN };
enum PredKind { PK_ALWAYS, PK_NEVER, PK_ODD, PK_FIRST1, PK_COUNT };
static const char * predName(int p) { static const char * n[] = {"always", "never", "odd-id", "first-call-only"}; return n[p]; }

struct Cfg {
	int K = 3;               // cap on pending events
	int nKeys = 2;
	bool nested = false;     // listeners and predicates take PROG choices
	bool nestedConsume = false;  // ... including nested consuming calls
	bool ordered = false;    // OrderedQueueList policy
	int cmpKind = 0;         // 0 ascending key, 1 descending key, 2 key mod 2
	bool ledgerOnly = false;
	int maxListeners = 2;
};

struct CmpAsc { template <typename T> bool operator()(const T & a, const T & b) const { return a.event < b.event; } };
struct CmpDesc { template <typename T> bool operator()(const T & a, const T & b) const { return a.event > b.event; } };
struct CmpMod2 { template <typename T> bool operator()(const T & a, const T & b) const { return (a.event % 2) < (b.event % 2); } };

template <typename Threading_>
struct PolPlain { using Threading = Threading_; };
template <typename Threading_, typename Cmp>
struct PolOrdered {
	using Threading = Threading_;
	template <typename Item> using QueueList = eventpp::OrderedQueueList<Item, Cmp>;
};

struct MEvent { int id; int key; int v; bool incl; };

// how the prototype takes the payload, and whether the payload type can be copied (peekEvent needs copy assignment)
struct MoveOnlyTracked : Tracked {
	explicit MoveOnlyTracked(int id_ = 0) : Tracked(id_) {}
	MoveOnlyTracked(MoveOnlyTracked &&) = default;
	MoveOnlyTracked & operator=(MoveOnlyTracked &&) = default;
	MoveOnlyTracked(const MoveOnlyTracked &) = delete;
	MoveOnlyTracked & operator=(const MoveOnlyTracked &) = delete;
};
struct PMConstRef { typedef Tracked Val; typedef const Tracked & Param; typedef const Tracked & UserParam; static const bool peekable = true; static const char * name() { return "const Tracked&"; } };
struct PMByValue { typedef Tracked Val; typedef Tracked Param; typedef Tracked UserParam;   /* listeners and predicates take the payload BY VALUE too: a library that forwarded the stored value as an rvalue would hand them the original */ static const bool peekable = true; static const char * name() { return "Tracked by value"; } };
struct PMMoveOnly { typedef MoveOnlyTracked Val; typedef const MoveOnlyTracked & Param; typedef const MoveOnlyTracked & UserParam; static const bool peekable = false; static const char * name() { return "move-only payload"; } };

template <typename Pol, typename PM = PMConstRef>
struct Harness {
	using Val = typename PM::Val;
	using Q = eventpp::EventQueue<int, void(int, typename PM::Param), Pol>;
	using Handle = typename Q::Handle;
	Cfg cfg; Ctx & ctx; Q * q = nullptr;

	// ---- model
	std::deque<MEvent> pending;
	std::vector<std::vector<int> > listeners;   // per key index: alive listener ids in order
	std::vector<Handle> lhandle; std::vector<int> lkey; std::vector<char> lalive;
	int slot[3]; int adds = 0;
	int nextEventId = 1;
	int active = 0;            // processing calls in progress that raised the "not empty" counter
	int inClear = 0;           // clearEvents calls in progress
	// The destructor of a queued argument is user code too: while clearEvents() discards events, the destructor of a discarded
	// argument may enqueue (a completion token posting "done"). One PROG choice per destroyed original.
	void onPayloadDeath(int cls, bool moved, int copyDepth) {
		if(!cfg.nested || inClear == 0 || cls != TC_PAYLOAD || moved || copyDepth != 0 || ctx.failed) return;
		if((int)pending.size() >= cfg.K) return;
		int a = ctx.ex.choose(2, 1, K_PROG);
		if(a == 1) { if(ctx.wantLog()) ctx.log("  (from the destructor of a discarded argument)"); doEnqueue(1, true); }
	}
	struct Frame {
		int kind; std::vector<MEvent> batch; size_t pos; bool inEvent; std::vector<int> snap; size_t li;
		std::vector<MEvent> declined; int predKind; int predCalls; bool stopped; bool predAsked; bool counted; int dispatched;
	};
	std::vector<Frame> frames;
	std::vector<int> consumedIds;   // every id consumed so far, with how (for exactly-once)
	std::map<int, int> consumeCount;

	Harness(Ctx & c, const Cfg & cf) : cfg(cf), ctx(c) {}

	void report(const std::string & clause, const std::string & msg) {
		if(cfg.ledgerOnly && clause.compare(0, 6, "ledger") != 0) { ctx.failed = true; return; }
		ctx.fail(clause, msg);
	}
	bool lAlive(int id) const { return id >= 0 && id < (int)lalive.size() && lalive[id]; }
	int keyIdx(int key) const { return key - 1; }
	bool lessEv(const MEvent & a, const MEvent & b) const {
		if(cfg.cmpKind == 0) return a.key < b.key;
		if(cfg.cmpKind == 1) return a.key > b.key;
		return (a.key % 2) < (b.key % 2);
	}
	void sortPending() { if(cfg.ordered) std::stable_sort(pending.begin(), pending.end(), [this](const MEvent & a, const MEvent & b) { return lessEv(a, b); }); }
	void consumed(const MEvent & e, const char * how) {
		int & c = consumeCount[e.id];
		if(++c > 1) report("event-consumed-twice", fmt("event %d consumed a second time (%s)", e.id, how));
	}

	// ---- expectation machine
	enum ExpKind { EX_LISTENER, EX_PREDICATE, EX_RETURN };
	struct Exp { ExpKind kind; MEvent ev; int listener; };
	Exp expectNext() {
		for(;;) {
			Frame & f = frames.back();
			if(f.inEvent) {
				while(f.li < f.snap.size() && !lAlive(f.snap[f.li])) ++f.li;
				if(f.li < f.snap.size()) return Exp{EX_LISTENER, f.batch[f.pos], f.snap[f.li]};
				f.inEvent = false; consumed(f.batch[f.pos], "dispatched"); ++f.dispatched; ++f.pos; f.predAsked = false;
				continue;
			}
			if(f.stopped || f.pos >= f.batch.size()) return Exp{EX_RETURN, MEvent{0, 0, 0, false}, -1};
			if((f.kind == CK_PROCESS_IF || f.kind == CK_PROCESS_UNTIL) && !f.predAsked) return Exp{EX_PREDICATE, f.batch[f.pos], -1};
			beginEvent(f);
		}
	}
	void beginEvent(Frame & f) { f.inEvent = true; f.snap = listeners[keyIdx(f.batch[f.pos].key)]; f.li = 0; }

	// ---- callbacks from the implementation
	void onListener(int lid, int v, const Val & t) {
		ctx.obs(3000 + lid); ctx.obs(t.id); ctx.obs(v);
		if(ctx.wantLog()) ctx.log(fmt("  listener L%d gets event %d", lid, t.id));
		if(frames.empty()) { report("listener-outside-call", fmt("listener L%d ran while no processing call was in progress", lid)); return; }
		if(!t.intact()) report("payload-damaged", fmt("payload of event %d is damaged or already destroyed when dispatched", t.id));
		Exp e = expectNext();
		if(ctx.failed) return;
		if(e.kind != EX_LISTENER || e.ev.id != t.id || e.listener != lid) {
			std::string want = e.kind == EX_LISTENER ? fmt("listener L%d with event %d", e.listener, e.ev.id) : (e.kind == EX_PREDICATE ? fmt("the predicate for event %d", e.ev.id) : std::string("the call to return"));
			const char * clause = "dispatch-unexpected";
			if(consumeCount.count(t.id)) clause = "event-dispatched-twice";
			else if(e.kind == EX_LISTENER && e.ev.id != t.id) clause = "dispatch-order";
			else if(!lAlive(lid)) clause = "removed-listener-called";
			report(clause, fmt("listener L%d was called with event %d, the model expected %s", lid, t.id, want.c_str()));
			return;
		}
		if(v != e.ev.v) report("argument-altered", fmt("event %d arrived with first argument %d instead of %d", t.id, v, e.ev.v));
		Frame & f = frames.back();
		++f.li;
		if(cfg.nested) progActions(lid);
	}
	bool onPredicate(int v, const Val & t) {
		ctx.obs(4000 + t.id);
		if(ctx.wantLog()) ctx.log(fmt("  predicate asked about event %d", t.id));
		if(frames.empty()) { report("predicate-outside-call", "predicate ran while no processing call was in progress"); return false; }
		if(!t.intact()) report("payload-damaged", fmt("payload of event %d is damaged when shown to the predicate", t.id));
		Exp e = expectNext();
		if(ctx.failed) return false;
		if(e.kind != EX_PREDICATE || e.ev.id != t.id) {
			report(e.kind == EX_PREDICATE ? "predicate-order" : "predicate-unexpected", fmt("predicate was asked about event %d, the model expected %s", t.id,
				e.kind == EX_PREDICATE ? fmt("event %d", e.ev.id).c_str() : (e.kind == EX_LISTENER ? fmt("listener L%d", e.listener).c_str() : "the call to return")));
			return false;
		}
		if(v != e.ev.v) report("argument-altered", fmt("predicate saw first argument %d instead of %d for event %d", v, e.ev.v, t.id));
		size_t fi = frames.size() - 1;
		int pk = frames[fi].predKind;
		bool ans = pk == PK_ALWAYS ? true : pk == PK_NEVER ? false : pk == PK_ODD ? (t.id % 2 == 1) : (frames[fi].predCalls == 0);
		++frames[fi].predCalls;
		if(cfg.nested) progActions(-1);
		if(ctx.failed) return ans;
		Frame & f = frames[fi];
		f.predAsked = true;
		if(f.kind == CK_PROCESS_IF) {
			if(ans) beginEvent(f); else { f.declined.push_back(f.batch[f.pos]); ++f.pos; f.predAsked = false; }
		}
		else {
			if(ans) f.stopped = true; else beginEvent(f);
		}
		return ans;
	}

	// ---- operations (top level and nested)
	void doEnqueue(int key, bool incl) {
		MEvent e{nextEventId++, key, incl ? key : 70 + key, incl};
		if(ctx.wantLog()) ctx.log(fmt("enqueue%s(key %d) -> event %d", incl ? "" : "[excl]", key, e.id));
		if(incl) q->enqueue(key, Val(e.id)); else q->enqueue(key, e.v, Val(e.id));
		pending.push_back(e);
		sortPending();
	}
	void startCall(int kind, int predKind) {
		Frame f; f.kind = kind; f.pos = 0; f.inEvent = false; f.li = 0; f.predKind = predKind; f.predCalls = 0; f.stopped = false; f.predAsked = false; f.dispatched = 0;
		f.counted = !pending.empty();
		if(kind == CK_PROCESS_ONE) { if(!pending.empty()) { f.batch.push_back(pending.front()); pending.pop_front(); } }
		else { f.batch.assign(pending.begin(), pending.end()); pending.clear(); }
		if(f.counted) ++active;
		frames.push_back(f);
	}
	void endCall(bool result, const char * name) {
		Exp e = expectNext();
		if(!ctx.failed && e.kind != EX_RETURN) {
			report(e.kind == EX_LISTENER ? "listener-missed" : "predicate-missed", fmt("%s returned, but the model still expected %s for event %d", name, e.kind == EX_LISTENER ? fmt("listener L%d", e.listener).c_str() : "the predicate", e.ev.id));
		}
		Frame f = frames.back(); frames.pop_back();
		if(f.counted) --active;
		// declined and untouched events go back ahead of newer ones
		std::deque<MEvent> back(f.declined.begin(), f.declined.end());
		for(size_t i = f.pos; i < f.batch.size(); ++i) back.push_back(f.batch[i]);
		for(auto & x : pending) back.push_back(x);
		pending.swap(back);
		sortPending();
		bool expect = (f.kind == CK_PROCESS || f.kind == CK_PROCESS_ONE) ? !f.batch.empty() : f.dispatched > 0;
		ctx.obs(result);
		if(!ctx.failed && result != expect) report("result-wrong", fmt("%s returned %d, expected %d", name, (int)result, (int)expect));
	}
	void doProcess() { if(ctx.wantLog()) ctx.log("process()"); startCall(CK_PROCESS, 0); bool r = q->process(); endCall(r, "process"); }
	void doProcessOne() { if(ctx.wantLog()) ctx.log("processOne()"); startCall(CK_PROCESS_ONE, 0); bool r = q->processOne(); endCall(r, "processOne"); }
	void doProcessIf(int pk) {
		if(ctx.wantLog()) ctx.log(fmt("processIf(%s)", predName(pk)));
		startCall(CK_PROCESS_IF, pk);
		bool r = q->processIf([this](int v, typename PM::UserParam t) { return onPredicate(v, t); });
		endCall(r, "processIf");
	}
	void doProcessUntil(int pk) {
		if(ctx.wantLog()) ctx.log(fmt("processUntil(%s)", predName(pk)));
		startCall(CK_PROCESS_UNTIL, pk);
		bool r = q->processUntil([this](int v, typename PM::UserParam t) { return onPredicate(v, t); });
		endCall(r, "processUntil");
	}
	void checkQueued(const typename Q::QueuedEvent & qe, const MEvent & m, const char * what) {
		const Val & t = std::get<1>(qe.arguments);
		if(qe.event != m.key || std::get<0>(qe.arguments) != m.v || t.id != m.id || !t.intact())
			report("handed-out-event-wrong", fmt("%s handed out (key %d, arg %d, payload %d%s), the model's front event is (key %d, arg %d, payload %d)", what, qe.event, std::get<0>(qe.arguments), t.id, t.intact() ? "" : " damaged", m.key, m.v, m.id));		// the accessors of QueuedEvent agree with its fields
		if(qe.getEvent() != qe.event || qe.template getArgument<0>() != std::get<0>(qe.arguments)) report("handed-out-event-wrong", fmt("%s: QueuedEvent::getEvent()/getArgument<0>() disagree with the event's fields", what));
		checkArg1(qe, t, what, std::integral_constant<bool, PM::peekable>());
	}
	void checkArg1(const typename Q::QueuedEvent &, const Val &, const char *, std::false_type) {}
	void checkArg1(const typename Q::QueuedEvent & qe, const Val & t, const char * what, std::true_type) {
		typename PM::UserParam a1 = qe.template getArgument<1>();
		if(a1.id != t.id || !a1.intact()) report("handed-out-event-wrong", fmt("%s: QueuedEvent::getArgument<1>() yields payload %d%s, the event holds payload %d", what, a1.id, a1.intact() ? "" : " damaged", t.id));
	}
	void doPeek() { doPeekImpl(std::integral_constant<bool, PM::peekable>()); }
	void doPeekImpl(std::false_type) {}
	void doPeekImpl(std::true_type) {
		typename Q::QueuedEvent qe;
		bool r = q->peekEvent(&qe);
		ctx.obs(r);
		if(ctx.wantLog()) ctx.log(fmt("peekEvent -> %d", (int)r));
		if(r != !pending.empty()) { report("result-wrong", fmt("peekEvent returned %d with %zu events pending", (int)r, pending.size())); return; }
		if(r) checkQueued(qe, pending.front(), "peekEvent");
	}
	void doTake(bool thenDispatch) {
		typename Q::QueuedEvent qe;
		bool r = q->takeEvent(&qe);
		ctx.obs(r);
		if(ctx.wantLog()) ctx.log(fmt("takeEvent -> %d%s", (int)r, thenDispatch ? " then dispatch(QueuedEvent)" : ""));
		if(r != !pending.empty()) { report("result-wrong", fmt("takeEvent returned %d with %zu events pending", (int)r, pending.size())); return; }
		if(!r) return;
		MEvent m = pending.front(); pending.pop_front();
		checkQueued(qe, m, "takeEvent");
		if(thenDispatch) {
			Frame f; f.kind = CK_DISPATCH_TAKEN; f.pos = 0; f.inEvent = false; f.li = 0; f.predKind = 0; f.predCalls = 0; f.stopped = false; f.predAsked = false; f.dispatched = 0; f.counted = false;
			f.batch.push_back(m);
			frames.push_back(f);
			q->dispatch(qe);
			Exp e = expectNext();
			if(!ctx.failed && e.kind != EX_RETURN) report("listener-missed", fmt("dispatch(QueuedEvent) returned without calling listener L%d", e.listener));
			frames.pop_back();
		}
		else consumed(m, "taken");
	}
	void doClear() {
		if(ctx.wantLog()) ctx.log("clearEvents()");
		std::vector<int> ids; for(auto & e : pending) ids.push_back(e.id);
		// what the call discards is decided when it starts; an event enqueued while it runs (from the destructor of a
		// discarded argument, see onPayloadDeath) is left for later calls
		std::deque<MEvent> discarded; discarded.swap(pending);
		++inClear;
		q->clearEvents();
		--inClear;
		for(auto & e : discarded) consumed(e, "cleared");
		// before clearEvents returns the arguments of the discarded events are released
		for(int id : ids) if(ledger().liveCount(TC_PAYLOAD, id) != 0 && !ctx.failed) ctx.fail("ledger-cleared-payload-alive", fmt("payload of event %d is still alive after clearEvents returned", id));
	}
	void doEmpty(bool insideListener) {
		bool got = q->emptyQueue();
		bool expect = pending.empty() && active == 0;
		ctx.obs(got);
		if(ctx.wantLog()) ctx.log(fmt("emptyQueue() -> %d", (int)got));
		if(got != expect) report(got ? (insideListener ? "empty-inside-listener" : "reported-empty-while-pending") : "reported-nonempty-while-empty",
			fmt("emptyQueue() returned %d with %zu events pending and %d processing call(s) in progress", (int)got, pending.size(), active));
		bool w = callWaitFor(std::is_same<typename Pol::Threading, eventpp::SingleThreading>(), expect);
		if(w == expect && !ctx.failed) report("waitfor-wrong", fmt("waitFor(0) returned %d with %zu events pending", (int)w, pending.size()));
	}
	// SingleThreading's condition variable cannot be instantiated with its own mutex type; nothing to call there
	bool callWaitFor(std::true_type, bool expectEmpty) { return !expectEmpty; }
	bool callWaitFor(std::false_type, bool) { return q->waitFor(std::chrono::milliseconds(0)); }
	void doAppendListener(int key) {
		int id = (int)lhandle.size();
		lhandle.push_back(Handle()); lkey.push_back(key); lalive.push_back(1);
		if(ctx.wantLog()) ctx.log(fmt("appendListener(key %d) -> L%d", key, id));
		lhandle[id] = q->appendListener(key, [this, id](int v, typename PM::UserParam t) { onListener(id, v, t); });
		listeners[keyIdx(key)].push_back(id);
		slot[adds % 3] = id; ++adds;
	}
	void doRemoveListener(int id) {
		bool expect = lAlive(id);
		bool got = q->removeListener(lkey[id], lhandle[id]);
		ctx.obs(got);
		if(ctx.wantLog()) ctx.log(fmt("removeListener(L%d) -> %d", id, (int)got));
		if(expect) { auto & l = listeners[keyIdx(lkey[id])]; l.erase(std::find(l.begin(), l.end(), id)); lalive[id] = 0; }
		if(got != expect) report("removelistener-result", fmt("removeListener(L%d) returned %d, expected %d", id, (int)got, (int)expect));
	}
	int liveListeners() const { int n = 0; for(char c : lalive) n += c; return n; }

	int progMenu() const { return 8 + (cfg.nestedConsume ? 4 : 0); }
	void progActions(int selfListener) {
		for(;;) {
			int a = ctx.ex.choose(progMenu(), 1, K_PROG);
			if(a == 0 || ctx.failed) return;
			bool ok = true;
			switch(a) {
			case 1: if((int)pending.size() >= cfg.K) ok = false; else doEnqueue(1, true); break;
			case 2: if((int)pending.size() >= cfg.K) ok = false; else doEnqueue(cfg.nKeys, false); break;
			case 3: if(liveListeners() >= cfg.maxListeners + 1) ok = false; else doAppendListener(1); break;
			case 4: if(selfListener < 0) ok = false; else doRemoveListener(selfListener); break;
			case 5: if(slot[0] < 0) ok = false; else doRemoveListener(slot[0]); break;
			case 6: doEmpty(true); break;
			case 7: if(!PM::peekable) ok = false; else doPeek(); break;
			case 8: if(frames.size() >= 3) ok = false; else doProcess(); break;
			case 9: if(frames.size() >= 3) ok = false; else doProcessOne(); break;
			case 10: doClear(); break;
			case 11: doTake(false); break;
			}
			if(!ok) return;
		}
	}

	// ---- top-level alphabet
	int topMenu() const { return 2 * cfg.nKeys + 2 + 4 + 4 + 5 + cfg.nKeys + 3; }
	void topOp(Bfs & b, int op) {
		int nk = cfg.nKeys;
		if(op < nk) { if((int)pending.size() >= cfg.K) b.skip(); doEnqueue(op + 1, true); return; }
		op -= nk;
		if(op < nk) { if((int)pending.size() >= cfg.K) b.skip(); doEnqueue(op + 1, false); return; }
		op -= nk;
		if(op == 0) { doProcess(); return; }
		if(op == 1) { doProcessOne(); return; }
		op -= 2;
		if(op < 4) { doProcessIf(op); return; }
		op -= 4;
		if(op < 4) { doProcessUntil(op); return; }
		op -= 4;
		if(op == 0) { if(!PM::peekable) b.skip(); doPeek(); return; }
		if(op == 1) { doTake(false); return; }
		if(op == 2) { doTake(true); return; }
		if(op == 3) { doClear(); return; }
		if(op == 4) { doEmpty(false); return; }
		op -= 5;
		if(op < nk) { if(liveListeners() >= cfg.maxListeners) b.skip(); doAppendListener(op + 1); return; }
		op -= nk;
		if(slot[op] < 0) b.skip();
		doRemoveListener(slot[op]);
	}

	template <typename L> static size_t listSize(const L & l) { size_t n = 0; for(auto it = l.begin(); it != l.end(); ++it) ++n; return n; }
	std::string key() {
		std::string k = "P:";
		for(auto & e : pending) k += fmt("%d%c%d,", e.key, e.incl ? 'i' : 'x', e.id % 2);
		k += fmt("|n%d|L:", nextEventId % 2);
		for(int ki = 0; ki < cfg.nKeys; ++ki) { k += fmt("%zu;", listeners[ki].size()); }
		k += "S:";
		for(int i = 0; i < 3; ++i) {
			if(slot[i] < 0) k += "e,";
			else if(!lAlive(slot[i])) k += "d,";
			else { auto & l = listeners[keyIdx(lkey[slot[i]])]; k += fmt("%d.%d,", lkey[slot[i]], (int)(std::find(l.begin(), l.end(), slot[i]) - l.begin())); }
		}
		k += fmt("a%d", adds % 3);
		// implementation snapshot: queue length, free-list length, both counters
#ifndef VERIF_NO_PRIVATE
		k += fmt("|I:%zu,%zu,%d,%d", listSize(q->queueList), listSize(q->freeList), (int)q->queueEmptyCounter.load(), (int)q->queueNotifyCounter.load());
		// ... and the ORDER of the pending list relative to the model's: a state in which the implementation holds the right
		// events in another order must not be merged with the ordinary state (it would never be expanded, and only a later
		// consuming call can show the difference)
		{
			std::string ord; bool same = true; size_t pos = 0;
			for(auto it = q->queueList.begin(); it != q->queueList.end(); ++it, ++pos) {
				int id = it->empty() ? -1 : std::get<1>(it->get().arguments).id;
				int mi = -1; for(size_t i = 0; i < pending.size(); ++i) if(pending[i].id == id) mi = (int)i;
				if(mi != (int)pos) same = false;
				ord += fmt("%d,", mi);
			}
			k += same ? std::string("|O=") : "|O:" + ord;
		}
#endif
		return k;
	}

	void quiescentChecks() {
		checkLedgerErrors(ctx, "quiescent");
		if(ctx.failed) return;
		int want = (int)pending.size();
		int have = ledger().liveTotal(TC_PAYLOAD, false);
		if(have != want) {
			ctx.fail(have > want ? "ledger-payload-not-released" : "ledger-payload-missing", fmt("%d payload objects alive while %d events are pending: %s", have, want, ledger().describeLive().c_str()));
			return;
		}
		for(auto & e : pending) if(ledger().liveCount(TC_PAYLOAD, e.id) != 1) { ctx.fail("ledger-payload-missing", fmt("pending event %d has %d live payload instances", e.id, ledger().liveCount(TC_PAYLOAD, e.id))); return; }
	}

	void body(Bfs & b) {
		ledger().reset();
		pending.clear(); listeners.assign(cfg.nKeys, std::vector<int>()); lhandle.clear(); lkey.clear(); lalive.clear(); frames.clear(); consumeCount.clear();
		for(int i = 0; i < 3; ++i) slot[i] = -1;
		adds = 0; nextEventId = 1; active = 0;
		inClear = 0;
		Q queue; q = &queue;
		struct Clear { Harness * h; ~Clear() { ledger().onDeath = nullptr; h->lhandle.clear(); h->q = nullptr; } } clr{this};
		ledger().onDeath = [this](int cls, int, bool moved, int copyDepth) { onPayloadDeath(cls, moved, copyDepth); };
		b.stepEnd(key());
		for(;;) {
			int op = b.chooseOp(topMenu());
			topOp(b, op);
			frames.clear();
			quiescentChecks();
			b.stepEnd(key());
		}
	}
	void after() {
		checkLedgerErrors(ctx, "after destruction");
		if(ledger().liveAll() != 0 && !ctx.failed) ctx.fail("ledger-leak-after-destruction", "objects still alive after the queue was destroyed: " + ledger().describeLive());
	}
};

template <typename Pol, typename PM = PMConstRef>
static void addUnit(const std::string & name, int minTier, Cfg cfg, int dq, int dt, int bq, int bt) {
	Unit u; u.name = name; u.minTier = minTier;
	u.run = [=](Ctx & ctx, UnitReport & rep, int tier) {
		Harness<Pol, PM> h(ctx, cfg);
		BfsOptions o; o.maxDepth = tier ? dt : dq; o.innerBudget = tier ? bt : bq;
		Bfs b(ctx, o);
		b.run([&](Bfs & bb) { h.body(bb); }, [&]() { h.after(); });
		fillBfsReport(rep, b.res);
		rep.str["config"] = std::string("payload ") + PM::name() + fmt("; EventQueue K=%d keys=%d nested=%d nestedConsume=%d ordered=%d cmp=%d budget=%d depth=%d", cfg.K, cfg.nKeys, (int)cfg.nested, (int)cfg.nestedConsume, (int)cfg.ordered, cfg.cmpKind, o.innerBudget, o.maxDepth);
	};
	u.replay = [=](Ctx & ctx, const std::vector<int> & seq) {
		Harness<Pol, PM> h(ctx, cfg);
		replayBody(ctx, seq, [&](Bfs & bb) { h.body(bb); }, [&]() { h.after(); });
	};
	units().push_back(u);
}

#ifndef VERIF_ONLY
#define VERIF_ONLY 0
#endif
#ifndef VERIF_SUB
#define VERIF_SUB -1
#endif
#define SEL(g, s) ((VERIF_ONLY == 0 || VERIF_ONLY == (g)) && (VERIF_SUB < 0 || VERIF_SUB == (s)))
using ST = eventpp::SingleThreading;
using MT = eventpp::MultipleThreading;


// ------------------------------------------------------------------ arity matrix (complete enumeration)
// EventQueue<int, void(int x N)> for N = 0..8: the queue unpacks the stored argument tuple through an index sequence, and
// so do the predicates of processIf/processUntil and dispatch(QueuedEvent). Every argument position carries a distinct
// value; every consuming call form must hand exactly those values, in order, to listeners and predicates.
#if SEL(5, 3) && __cplusplus >= 201402L
#define VERIF_HAVE_ARITY 1
namespace arity {
template <size_t> using IntT = int;
template <typename Seq> struct Sig;
template <size_t ...I> struct Sig<std::index_sequence<I...> > { typedef void type(IntT<I>...); };
typedef std::vector<int> Args;
static std::string show(const std::vector<Args> & v) { std::string s; for(auto & a : v) { s += "("; for(size_t i = 0; i < a.size(); ++i) s += fmt("%s%d", i ? "," : "", a[i]); s += ") "; } return s; }

template <size_t N>
struct Case {
	typedef std::make_index_sequence<N> Seq;
	typedef typename Sig<Seq>::type Proto;
	typedef eventpp::EventQueue<int, Proto> Q;
	Ctx & ctx; long & evals;
	std::vector<Args> listener, predicate;
	int predCalls = 0; unsigned predTrueMask = 0;
	Case(Ctx & c, long & e) : ctx(c), evals(e) {}
	static Args args(int ev) { Args v; for(size_t i = 0; i < N; ++i) v.push_back(ev * 100 + (int)i * 7 + 1); return v; }
	template <size_t ...I> void enq(Q & q, int ev, std::index_sequence<I...>) { Args a = args(ev); (void)a; q.enqueue(5, a[I]...); }
	template <size_t ...I> void listen(Q & q, std::index_sequence<I...>) { q.appendListener(5, [this](IntT<I>... xs) { listener.push_back(Args{xs...}); }); }
	template <size_t ...I> bool procIf(Q & q, std::index_sequence<I...>) { return q.processIf([this](IntT<I>... xs) { predicate.push_back(Args{xs...}); return ((predTrueMask >> predCalls++) & 1u) != 0; }); }
	template <size_t ...I> bool procUntil(Q & q, std::index_sequence<I...>) { return q.processUntil([this](IntT<I>... xs) { predicate.push_back(Args{xs...}); return ((predTrueMask >> predCalls++) & 1u) != 0; }); }
	template <size_t ...I> Args tupleOf(const typename Q::QueuedEvent & qe, std::index_sequence<I...>) { return Args{std::get<I>(qe.arguments)...}; }
	template <size_t ...I> Args gettersOf(const typename Q::QueuedEvent & qe, std::index_sequence<I...>) { return Args{qe.template getArgument<I>()...}; }
	void expect(const char * mode, const char * what, const std::vector<Args> & got, std::initializer_list<int> evs) {
		++evals;
		std::vector<Args> want; for(int e : evs) want.push_back(args(e));
		if(got != want && !ctx.failed) ctx.fail("arity-arguments-differ", fmt("EventQueue<int, void(int x %zu)>, %s: %s received %s, expected %s", N, mode, what, show(got).c_str(), show(want).c_str()));
	}
	void run() {
		for(int mode = 0; mode < 5 && !ctx.failed; ++mode) {
			Q q; listener.clear(); predicate.clear(); predCalls = 0;
			listen(q, Seq());
			for(int ev = 1; ev <= 3; ++ev) enq(q, ev, Seq());
			ctx.obs((uint64_t)(N * 10 + mode));
			if(mode == 0) { q.process(); expect("process", "the listener", listener, {1, 2, 3}); }
			else if(mode == 1) { q.processOne(); expect("processOne", "the listener", listener, {1}); q.processOne(); q.processOne(); expect("processOne x3", "the listener", listener, {1, 2, 3}); }
			else if(mode == 2) {
				predTrueMask = 0x5; procIf(q, Seq());
				expect("processIf(accept 1st and 3rd)", "the predicate", predicate, {1, 2, 3}); expect("processIf(accept 1st and 3rd)", "the listener", listener, {1, 3});
				q.process(); expect("processIf then process", "the listener", listener, {1, 3, 2});
			}
			else if(mode == 3) {
				predTrueMask = 0x2; procUntil(q, Seq());
				expect("processUntil(stop at the 2nd)", "the predicate", predicate, {1, 2}); expect("processUntil(stop at the 2nd)", "the listener", listener, {1});
				q.process(); expect("processUntil then process", "the listener", listener, {1, 2, 3});
			}
			else {
				typename Q::QueuedEvent qe;
				if(!q.peekEvent(&qe)) { ctx.fail("arity-arguments-differ", "peekEvent found nothing"); return; }
				expect("peekEvent", "QueuedEvent::arguments", std::vector<Args>{tupleOf(qe, Seq())}, {1}); expect("peekEvent", "QueuedEvent::getArgument<i>()", std::vector<Args>{gettersOf(qe, Seq())}, {1});
				typename Q::QueuedEvent qt;
				if(!q.takeEvent(&qt)) { ctx.fail("arity-arguments-differ", "takeEvent found nothing"); return; }
				expect("takeEvent", "QueuedEvent::arguments", std::vector<Args>{tupleOf(qt, Seq())}, {1});
				{ const typename Q::QueuedEvent & cq = qt; q.dispatch(cq); } expect("dispatch(QueuedEvent)", "the listener", listener, {1});
				q.process(); expect("take+dispatch then process", "the listener", listener, {1, 2, 3});
			}
			for(auto & a : listener) for(int x : a) ctx.obs((uint64_t)x);
		}
	}
};
template <size_t N> static void runOne(Ctx & ctx, long & evals) { Case<N> c(ctx, evals); c.run(); }
static void runAll(Ctx & ctx, UnitReport & rep) {
	long evals = 0;
	runOne<0>(ctx, evals); runOne<1>(ctx, evals); runOne<2>(ctx, evals); runOne<3>(ctx, evals); runOne<4>(ctx, evals);
	runOne<5>(ctx, evals); runOne<6>(ctx, evals); runOne<7>(ctx, evals); runOne<8>(ctx, evals);
	ctx.executions = evals; rep.num["executions"] = (double)evals; rep.num["arities"] = 9; rep.num["call_forms"] = 5;
	ctx.samples.push_back("EventQueue<int, void(int,int,int)>: enqueue x3; processIf(accept 1st and 3rd); process");
}
}
#endif


// ------------------------------------------------------------------ wide ordered queues (complete enumeration of a family)
// The BFS units cap the pending events at 3-4, so a sort that is only wrong for LONG lists (an unstable algorithm that is an
// insertion sort below a threshold, a merge that mishandles long runs) never shows. This family fixes the shape instead of the
// depth: N pending events for every N up to 40, keys following every pattern of a small set (long runs of equal keys, alternation,
// ascending, descending, a late minimum, period 3), and every consuming form that (re)sorts: process, processOne/takeEvent one by
// one, processIf declining a subset (put-back), processUntil stopping at the k-th, with a late enqueue in between.
#if SEL(13, 3)
#define VERIF_HAVE_WIDE 1
namespace wide {
struct Ev { int id, key; };
template <typename Cmp> struct CmpName;
template <> struct CmpName<CmpAsc> { static const char * n() { return "ascending"; } static bool less(int a, int b) { return a < b; } };
template <> struct CmpName<CmpDesc> { static const char * n() { return "descending"; } static bool less(int a, int b) { return a > b; } };
template <> struct CmpName<CmpMod2> { static const char * n() { return "mod-2 classes"; } static bool less(int a, int b) { return (a % 2) < (b % 2); } };
static int patKey(int pat, int i, int n) {
	switch(pat) {
	case 0: return 2;                         // all equal
	case 1: return 1 + (i % 2);               // alternating
	case 2: return i < n / 2 ? 2 : 1;         // two blocks, wrong way round
	case 3: return 1 + i;                     // ascending (all distinct)
	case 4: return n - i;                     // descending (all distinct)
	case 5: return i == n - 1 ? 1 : 2;        // a late minimum behind a long run of equals
	case 6: return 1 + (i % 3);               // period 3
	default: return i == 0 ? 3 : 2;           // an early maximum in front of a long run of equals
	}
}
static const int NPAT = 8;
static const char * opName(int op) {
	static const char * n[] = {"process", "processOne x N", "takeEvent x N", "processIf(decline odd ids); enqueue; process", "processIf(decline all); enqueue; process",
		"processUntil(stop at N/2); enqueue; process", "processIf(accept odd ids) twice; process", "processUntil(stop at 1st); processOne; enqueue; process"};
	return n[op];
}
static const int NOPS = 8;
template <typename Cmp>
struct Case {
	typedef eventpp::EventQueue<int, void(int), PolOrdered<ST, Cmp> > Q;
	Ctx & ctx;
	std::vector<Ev> pending; std::vector<int> got, want; int nextId = 1;
	Case(Ctx & c) : ctx(c) {}
	void sortM() { std::stable_sort(pending.begin(), pending.end(), [](const Ev & a, const Ev & b) { return CmpName<Cmp>::less(a.key, b.key); }); }
	void enq(Q & q, int key) { Ev e{nextId++, key}; q.enqueue(key, e.id); pending.push_back(e); sortM(); }
	void run(int n, int pat, int op, long & evals) {
		++evals;
		Q q; pending.clear(); got.clear(); want.clear(); nextId = 1;
		int maxKey = 0; for(int i = 0; i < n; ++i) maxKey = std::max(maxKey, patKey(pat, i, n));
		for(int k = 1; k <= maxKey + 1; ++k) q.appendListener(k, [this](int id) { got.push_back(id); });
		for(int i = 0; i < n; ++i) enq(q, patKey(pat, i, n));
		auto takeAll = [&]() { for(auto & e : pending) want.push_back(e.id); pending.clear(); };
		int predCalls = 0;
		switch(op) {
		case 0: takeAll(); q.process(); break;
		case 1: for(int i = 0; i < n; ++i) q.processOne(); takeAll(); break;
		case 2: for(int i = 0; i < n; ++i) { typename Q::QueuedEvent qe; if(q.takeEvent(&qe)) got.push_back(std::get<0>(qe.arguments)); } takeAll(); break;
		case 3: case 4: case 6: {
			for(int round = 0; round < (op == 6 ? 2 : 1); ++round) {
				std::vector<Ev> keep;
				for(auto & e : pending) { bool acc = op == 4 ? false : op == 3 ? (e.id % 2 == 0) : (e.id % 2 == 1); if(acc) want.push_back(e.id); else keep.push_back(e); }
				pending = keep; sortM();
				q.processIf([op](int id) { return op == 4 ? false : op == 3 ? (id % 2 == 0) : (id % 2 == 1); });
			}
			if(op != 6) enq(q, patKey(pat, 0, n));
			takeAll(); q.process();
			break;
		}
		case 5: {
			int stop = n / 2;     // the predicate answers true at its (stop+1)-th call: `stop` events are dispatched
			for(int i = 0; i < stop; ++i) want.push_back(pending[i].id);
			pending.erase(pending.begin(), pending.begin() + stop); sortM();
			q.processUntil([&predCalls, stop](int) { return predCalls++ == stop; });
			enq(q, patKey(pat, n - 1, n));
			takeAll(); q.process();
			break;
		}
		case 7: {
			q.processUntil([](int) { return true; });
			sortM();
			if(!pending.empty()) { want.push_back(pending.front().id); pending.erase(pending.begin()); }
			q.processOne();
			enq(q, patKey(pat, 0, n));
			takeAll(); q.process();
			break;
		}
		}
		for(int x : got) ctx.obs((uint64_t)x);
		if(got != want && !ctx.failed) {
			size_t i = 0; while(i < got.size() && i < want.size() && got[i] == want[i]) ++i;
			std::string ks; for(int j = 0; j < n && j < 48; ++j) ks += fmt("%d ", patKey(pat, j, n));
			ctx.fail(got.size() != want.size() ? "wide-event-count-differs" : "wide-order-differs",
				fmt("OrderedQueueList (%s), %d events with keys [%s], %s: %zu events delivered, %zu expected; first difference at position %zu (event %d instead of %d) - not the stable comparator order",
					CmpName<Cmp>::n(), n, ks.c_str(), opName(op), got.size(), want.size(), i, i < got.size() ? got[i] : -1, i < want.size() ? want[i] : -1));
		}
		if(!q.emptyQueue() && !ctx.failed) ctx.fail("wide-not-empty", fmt("OrderedQueueList (%s), %d events, %s: queue not empty afterwards", CmpName<Cmp>::n(), n, opName(op)));
	}
};
template <typename Cmp> static void runCmp(Ctx & ctx, long & evals, int maxN) {
	Case<Cmp> c(ctx);
	for(int n = 1; n <= maxN && !ctx.failed; ++n) for(int pat = 0; pat < NPAT && !ctx.failed; ++pat) for(int op = 0; op < NOPS && !ctx.failed; ++op) c.run(n, pat, op, evals);
}
static void runAll(Ctx & ctx, UnitReport & rep, int tier) {
	long evals = 0; int maxN = tier ? 96 : 40;
	runCmp<CmpAsc>(ctx, evals, maxN); runCmp<CmpDesc>(ctx, evals, maxN); runCmp<CmpMod2>(ctx, evals, maxN);
	ctx.executions = evals; rep.num["executions"] = (double)evals; rep.num["max_pending"] = maxN; rep.num["key_patterns"] = NPAT; rep.num["call_forms"] = NOPS; rep.num["comparators"] = 3;
	ctx.samples.push_back("OrderedQueueList ascending, 17 events all with key 2: processIf(decline all); enqueue(key 2); process -> ids 1..18 in enqueue order");
}
}
#endif

static struct Register {
	Register() {
		Cfg flat; flat.K = 3;
		Cfg nest = flat; nest.nested = true;
		Cfg nestC = nest; nestC.nestedConsume = true;
		(void)flat; (void)nest; (void)nestC;
#if SEL(5, 0)
		addUnit<PolPlain<ST> >("C05/flat/single", 0, flat, 5, 30, 0, 0);
		addUnit<PolPlain<VThreading> >("C05/flat/vmutex", 0, flat, 4, 30, 0, 0);
#endif
#if SEL(5, 1)
		addUnit<PolPlain<MT> >("C05/flat/stdmutex", 0, flat, 4, 30, 0, 0);
		addUnit<PolPlain<VThreading> >("C05/nested/vmutex", 0, nest, 4, 4, 1, 2);
#endif
#if SEL(5, 2)
		addUnit<PolPlain<ST> >("C05/nested/single", 0, nest, 4, 4, 1, 2);
		addUnit<PolPlain<ST> >("C05/nested-consume/single", 0, nestC, 4, 4, 1, 2);
#endif
#if SEL(5, 3)
		addUnit<PolPlain<ST>, PMByValue>("C05/flat/by-value-payload", 0, flat, 5, 30, 0, 0);
		addUnit<PolPlain<ST>, PMMoveOnly>("C05/flat/move-only-payload", 0, flat, 5, 30, 0, 0);
		addUnit<PolPlain<MT>, PMMoveOnly>("C05/nested/move-only-payload", 0, nestC, 4, 4, 1, 2);
		addUnit<PolPlain<VThreading>, PMByValue>("C05/nested/by-value-payload", 0, nest, 4, 4, 1, 2);
#endif
#ifdef VERIF_HAVE_ARITY
		{
			Unit u; u.name = "C05/arity-matrix"; u.minTier = 0;
			u.run = [](Ctx & ctx, UnitReport & rep, int) { ctx.ex.beginExecution(); arity::runAll(ctx, rep); rep.str["config"] = "EventQueue<int, void(int x N)>, N = 0..8 x {process, processOne, processIf, processUntil, peek/take/dispatch(QueuedEvent)}: complete enumeration"; };
			u.replay = [](Ctx & ctx, const std::vector<int> &) { UnitReport r; ctx.tracing = true; arity::runAll(ctx, r); };
			units().push_back(u);
		}
#endif
#if SEL(13, 0)
		{ Cfg c = flat; c.ordered = true; c.nKeys = 3; c.cmpKind = 0;
		  addUnit<PolOrdered<ST, CmpAsc> >("C13/flat/ascending", 0, c, 5, 30, 0, 0);
		  Cfg n = c; n.nested = true; n.nestedConsume = true;
		  addUnit<PolOrdered<ST, CmpAsc> >("C13/nested/ascending", 0, n, 4, 4, 1, 2); }
#endif
#if SEL(13, 1)
		{ Cfg c = flat; c.ordered = true; c.nKeys = 3; c.cmpKind = 1;
		  addUnit<PolOrdered<ST, CmpDesc> >("C13/flat/descending", 0, c, 5, 30, 0, 0);
		  Cfg n = c; n.nested = true;
		  addUnit<PolOrdered<VThreading, CmpDesc> >("C13/nested/descending-vmutex", 0, n, 4, 4, 1, 2); }
#endif
#if SEL(13, 2)
		{ Cfg c = flat; c.ordered = true; c.nKeys = 3; c.cmpKind = 2; c.K = 4;
		  addUnit<PolOrdered<ST, CmpMod2> >("C13/flat/mod2-classes", 0, c, 5, 9, 0, 0);
		  { Cfg c3 = c; c3.K = 3; addUnit<PolOrdered<ST, CmpMod2> >("C13/flat/mod2-classes-K3", 1, c3, 5, 30, 0, 0); }
		  Cfg n = c; n.nested = true; n.K = 3;
		  addUnit<PolOrdered<ST, CmpMod2> >("C13/nested/mod2-classes", 0, n, 4, 4, 1, 2); }
#endif
#ifdef VERIF_HAVE_WIDE
		{
			Unit u; u.name = "C13/wide-queues"; u.minTier = 0;
			u.run = [](Ctx & ctx, UnitReport & rep, int tier) { ctx.ex.beginExecution(); wide::runAll(ctx, rep, tier); rep.str["config"] = "EventQueue<int, void(int)> with OrderedQueueList x 3 comparators, N = 1..40 (thorough: 96) pending events x 8 key patterns x 8 consuming forms: complete enumeration of the family"; };
			u.replay = [](Ctx & ctx, const std::vector<int> &) { UnitReport r; ctx.tracing = true; wide::runAll(ctx, r, ctx.tier); };
			units().push_back(u);
		}
#endif
#if SEL(8, 0)
		{ Cfg c = nestC; c.ledgerOnly = true;
		  addUnit<PolPlain<ST> >("C08/queue/nested-consume", 0, c, 4, 4, 1, 2); }
#endif
#if SEL(8, 1)
		{ Cfg c = flat; c.ledgerOnly = true;
		  addUnit<PolPlain<ST> >("C08/queue/flat", 0, c, 5, 30, 0, 0); }
#endif
#if SEL(20, 0)
		addUnit<PolPlain<ST> >("C20/queue-flat/single", 0, flat, 4, 5, 0, 0);
		addUnit<PolPlain<VThreading> >("C20/queue-flat/vthreading", 0, flat, 4, 5, 0, 0);
		addUnit<PolPlain<MT> >("C20/queue-flat/stdmutex", 0, flat, 4, 5, 0, 0);
		addUnit<PolPlain<eventpp::GeneralThreading<eventpp::SpinLock, std::atomic, std::condition_variable_any> > >("C20/queue-flat/spinlock", 0, flat, 4, 5, 0, 0);
#endif
#if SEL(20, 1)
		addUnit<PolPlain<ST> >("C20/queue-nested/single", 0, nestC, 3, 4, 1, 1);
		addUnit<PolPlain<MT> >("C20/queue-nested/stdmutex", 0, nestC, 3, 4, 1, 1);
#endif
#if SEL(11, 0)
		{ Cfg c = nestC; c.K = 2;
		  addUnit<PolPlain<ST> >("C11/sequential/listener-observes", 0, c, 4, 4, 1, 2); }
#endif
	}
} reg;

VERIF_MAIN("queue")
