// Engine H harness for C16: CounterRemover and ConditionalRemover detach listeners exactly when promised.
#define VERIF_DEFINE_HOOKS
#include "../fw/core.h"
#include "../fw/ledger.h"
#include "../fw/sched.h"
#include <eventpp/callbacklist.h>
#include <eventpp/eventdispatcher.h>
#include <eventpp/eventqueue.h>
#include <eventpp/hetercallbacklist.h>
#include <eventpp/hetereventdispatcher.h>
#include <eventpp/utilities/counterremover.h>
#include <eventpp/utilities/conditionalremover.h>

using namespace verif;

struct HB { virtual ~HB() {} virtual void onCall(int id, int v) = 0; virtual bool onCond(int id, int v, bool hasArg, int selfCount) = 0; };
static HB * g_h = nullptr;

struct Fn : TrackedBase<TC_CALLBACK> {
	explicit Fn(int i = 0) : TrackedBase<TC_CALLBACK>(i) {}
	void operator()(int v) const { int my = id; if(alive()) g_h->onCall(my, v); }
};
// every condition carries its own evaluation counter (a stateful functor): the remover has to keep evaluating the one it stored
struct CondArgs { int id; int n; bool operator()(int v) { return g_h->onCond(id, v, true, ++n); } };
struct CondNoArgs { int id; int n; bool operator()() { return g_h->onCond(id, 0, false, ++n); } };
// callable both ways: the remover has to pass the trigger's arguments ("with the trigger's arguments if it accepts them")
struct CondBoth { int id; int n; bool operator()(int v) { return g_h->onCond(id, v, true, ++n); } bool operator()() { return g_h->onCond(id, -12345, true, ++n); } };

template <typename Th> struct P { using Threading = Th; };
typedef eventpp::HeterTuple<void(int), void(const std::string &)> HT;

// ---- target adapters
template <typename Th> struct TList {
	typedef eventpp::CallbackList<void(int), P<Th> > T; typedef typename T::Handle Handle;
	static const char * name() { return "CallbackList"; }
	static Handle addPlain(T & t, const Fn & f) { return t.append(f); }
	static Handle addCounter(T & t, const Fn & f, int n, int pos, const Handle & before) { auto r = eventpp::counterRemover(t); return pos == 0 ? r.append(f, n) : pos == 1 ? r.prepend(f, n) : r.insert(f, before, n); }
	template <typename C> static Handle addCond(T & t, const Fn & f, C c, int pos, const Handle & before) { auto r = eventpp::conditionalRemover(t); return pos == 0 ? r.append(f, c) : pos == 1 ? r.prepend(f, c) : r.insert(f, before, c); }
	static bool remove(T & t, const Handle & h) { return t.remove(h); }
	static void trigger(T & t, int v) { t(v); }
	static void nested(T & t, int v) { t(v); }
};
template <typename Th> struct TDisp {
	typedef eventpp::EventDispatcher<int, void(int), P<Th> > T; typedef typename T::Handle Handle;
	static const char * name() { return "EventDispatcher"; }
	static Handle addPlain(T & t, const Fn & f) { return t.appendListener(3, f); }
	static Handle addCounter(T & t, const Fn & f, int n, int pos, const Handle & before) { auto r = eventpp::counterRemover(t); return pos == 0 ? r.appendListener(3, f, n) : pos == 1 ? r.prependListener(3, f, n) : r.insertListener(3, f, before, n); }
	template <typename C> static Handle addCond(T & t, const Fn & f, C c, int pos, const Handle & before) { auto r = eventpp::conditionalRemover(t); return pos == 0 ? r.appendListener(3, f, c) : pos == 1 ? r.prependListener(3, f, c) : r.insertListener(3, f, before, c); }
	static bool remove(T & t, const Handle & h) { return t.removeListener(3, h); }
	static void trigger(T & t, int v) { t.dispatch(3, v); }
	static void nested(T & t, int v) { t.dispatch(3, v); }
};
template <typename Th> struct TQueue {
	typedef eventpp::EventQueue<int, void(int), P<Th> > T; typedef typename T::Handle Handle;
	static const char * name() { return "EventQueue"; }
	static Handle addPlain(T & t, const Fn & f) { return t.appendListener(3, f); }
	static Handle addCounter(T & t, const Fn & f, int n, int pos, const Handle & before) { auto r = eventpp::counterRemover(t); return pos == 0 ? r.appendListener(3, f, n) : pos == 1 ? r.prependListener(3, f, n) : r.insertListener(3, f, before, n); }
	template <typename C> static Handle addCond(T & t, const Fn & f, C c, int pos, const Handle & before) { auto r = eventpp::conditionalRemover(t); return pos == 0 ? r.appendListener(3, f, c) : pos == 1 ? r.prependListener(3, f, c) : r.insertListener(3, f, before, c); }
	static bool remove(T & t, const Handle & h) { return t.removeListener(3, h); }
	static void trigger(T & t, int v) { t.enqueue(3, v); t.process(); }
	static void nested(T & t, int v) { t.dispatch(3, v); }
};
template <typename Th> struct THeterList {
	typedef eventpp::HeterCallbackList<HT, P<Th> > T; typedef typename T::Handle Handle;
	static const char * name() { return "HeterCallbackList"; }
	static Handle addPlain(T & t, const Fn & f) { return t.append(f); }
	static Handle addCounter(T & t, const Fn & f, int n, int pos, const Handle & before) { auto r = eventpp::counterRemover(t); return pos == 0 ? r.append(f, n) : pos == 1 ? r.prepend(f, n) : r.insert(f, before, n); }
	template <typename C> static Handle addCond(T & t, const Fn & f, C c, int pos, const Handle & before) { auto r = eventpp::conditionalRemover(t); return pos == 0 ? r.append(f, c) : pos == 1 ? r.prepend(f, c) : r.insert(f, before, c); }
	static bool remove(T & t, const Handle & h) { return t.remove(h); }
	static void trigger(T & t, int v) { t(v); }
	static void nested(T & t, int v) { t(v); }
};
template <typename Th> struct THeterDisp {
	typedef eventpp::HeterEventDispatcher<int, HT, P<Th> > T; typedef typename T::Handle Handle;
	static const char * name() { return "HeterEventDispatcher"; }
	static Handle addPlain(T & t, const Fn & f) { return t.appendListener(3, f); }
	static Handle addCounter(T & t, const Fn & f, int n, int pos, const Handle & before) { auto r = eventpp::counterRemover(t); return pos == 0 ? r.appendListener(3, f, n) : pos == 1 ? r.prependListener(3, f, n) : r.insertListener(3, f, before, n); }
	template <typename C> static Handle addCond(T & t, const Fn & f, C c, int pos, const Handle & before) { auto r = eventpp::conditionalRemover(t); return pos == 0 ? r.appendListener(3, f, c) : pos == 1 ? r.prependListener(3, f, c) : r.insertListener(3, f, before, c); }
	static bool remove(T & t, const Handle & h) { return t.removeListener(3, h); }
	static void trigger(T & t, int v) { t.dispatch(3, v); }
	static void nested(T & t, int v) { t.dispatch(3, v); }
};

struct Cfg { int K = 3; int maxWrapped = 2; bool nested = true; int maxNest = 3; bool heter = false; };

template <typename A>
struct Harness : HB {
	typedef typename A::T T; typedef typename A::Handle Handle;
	Cfg cfg; Ctx & ctx; T * t = nullptr;
	enum Kind { PLAIN, COUNTER, COND };
	struct Entry { int kind; int remaining; unsigned bits; int evals; int withArgs; bool attached; };
	std::vector<Entry> ent;            // by id
	std::vector<Handle> handleOf;
	std::vector<int> order;            // attached ids in list order
	int slot[3]; int adds = 0; int triggers = 0;
	struct Frame { std::vector<int> snap; size_t idx; int v; };
	std::vector<Frame> frames;
	int condExpectedFor = -1; bool condSeen = false;

	Harness(Ctx & c, const Cfg & cf) : cfg(cf), ctx(c) {}
	bool att(int id) const { return ent[id].attached; }
	int wrapped() const { int n = 0; for(int id : order) if(ent[id].kind != PLAIN) ++n; return n; }
	void detach(int id) { if(ent[id].attached) { ent[id].attached = false; order.erase(std::find(order.begin(), order.end(), id)); } }

	int newEntry(int kind) { int id = (int)ent.size(); ent.push_back(Entry{kind, 0, 0, 0, false, true}); handleOf.push_back(Handle()); return id; }
	void place(int id, int pos, int beforeId) {
		if(pos == 0) order.push_back(id);
		else if(pos == 1) order.insert(order.begin(), id);
		else { auto it = (beforeId >= 0 && att(beforeId)) ? std::find(order.begin(), order.end(), beforeId) : order.end(); order.insert(it, id); }
		slot[adds % 3] = id; ++adds;
	}
	Handle beforeHandle(int pos, int & beforeId) { beforeId = (pos == 2 && slot[0] >= 0) ? slot[0] : -1; return beforeId >= 0 ? handleOf[beforeId] : Handle(); }
	// a handle of the heterogeneous containers is an aggregate; an empty one needs index -1
	static Handle emptyHandle(std::true_type) { return Handle{-1, {}}; }
	static Handle emptyHandle(std::false_type) { return Handle(); }

	void addPlain() { int id = newEntry(PLAIN); ctx.log(fmt("append plain -> #%d", id)); handleOf[id] = A::addPlain(*t, Fn(id)); place(id, 0, -1); }
	void addCounter(int n, int pos) {
		int id = newEntry(COUNTER); ent[id].remaining = n < 1 ? 1 : n;
		int beforeId; Handle bh = beforeHandle(pos, beforeId);
		ctx.log(fmt("CounterRemover add (count %d, %s) -> #%d", n, pos == 0 ? "append" : pos == 1 ? "prepend" : "insert before slot0", id));
		handleOf[id] = A::addCounter(*t, Fn(id), n, pos, bh);
		place(id, pos, beforeId);
	}
	void addCond(int pattern, int withArgs, int pos) {   // withArgs: 0 = condition(), 1 = condition(int), 2 = callable both ways
		static const unsigned bitsOf[] = {0x1, 0x2, 0x4, 0x0};
		int id = newEntry(COND); ent[id].bits = bitsOf[pattern]; ent[id].withArgs = withArgs;
		int beforeId; Handle bh = beforeHandle(pos, beforeId);
		ctx.log(fmt("ConditionalRemover add (condition true at evaluation %s, %s arguments, %s) -> #%d", pattern == 3 ? "never" : fmt("%d", pattern + 1).c_str(), withArgs == 2 ? "takes or omits" : withArgs ? "takes" : "no", pos == 0 ? "append" : pos == 1 ? "prepend" : "insert before slot0", id));
		if(withArgs == 2) handleOf[id] = A::addCond(*t, Fn(id), CondBoth{id, 0}, pos, bh); else if(withArgs) handleOf[id] = A::addCond(*t, Fn(id), CondArgs{id, 0}, pos, bh); else handleOf[id] = A::addCond(*t, Fn(id), CondNoArgs{id, 0}, pos, bh);
		place(id, pos, beforeId);
	}
	void doRemove(int id, const char * who) {
		bool expect = att(id);
		bool got = A::remove(*t, handleOf[id]);
		ctx.tagStep(got ? "+r1" : "+r0");
		ctx.log(fmt("%sremove(#%d) -> %d", who, id, (int)got)); ctx.obs(got);
		detach(id);
		if(got != expect) ctx.fail("remove-result", fmt("remove(#%d) returned %d, expected %d", id, (int)got, (int)expect));
	}
	void doTrigger(bool nestedCall) {
		int v = 10 + (triggers++ % 5);
		Frame f; f.snap = order; f.idx = 0; f.v = v;
		frames.push_back(f);
		ctx.log(fmt("%strigger(%d)", nestedCall ? "nested " : "", v));
		if(nestedCall) A::nested(*t, v); else A::trigger(*t, v);
		Frame & fr = frames.back();
		while(fr.idx < fr.snap.size() && !att(fr.snap[fr.idx])) ++fr.idx;
		if(fr.idx < fr.snap.size() && !ctx.failed) {
			int id = fr.snap[fr.idx];
			ctx.fail(ent[id].kind == PLAIN ? "listener-missed" : "wrapped-listener-not-invoked", fmt("trigger returned without invoking #%d (%s), which was still due", id, ent[id].kind == COUNTER ? fmt("CounterRemover, %d invocations left", ent[id].remaining).c_str() : ent[id].kind == COND ? "ConditionalRemover, condition not yet true" : "plain"));
		}
		frames.pop_back();
	}

	bool onCond(int id, int v, bool hasArg, int selfCount) override {
		ctx.obs(7000 + id);
		if(frames.empty()) { ctx.fail("condition-outside-trigger", "condition evaluated outside a trigger"); return false; }
		Frame & f = frames.back();
		// the condition of a wrapped listener is evaluated when that listener's turn comes, before the listener
		while(f.idx < f.snap.size() && !att(f.snap[f.idx])) ++f.idx;
		if(f.idx >= f.snap.size() || f.snap[f.idx] != id) { ctx.fail("condition-unexpected", fmt("condition of #%d evaluated when it was not that listener's turn", id)); return false; }
		if(condExpectedFor == id && condSeen) { ctx.fail("condition-evaluated-twice", fmt("condition of #%d evaluated more than once for one trigger", id)); return false; }
		condExpectedFor = id; condSeen = true;
		if(hasArg && v != f.v) ctx.fail("condition-arguments", fmt("condition of #%d received %d instead of the trigger's argument %d", id, v, f.v));
		Entry & e = ent[id];
		if(selfCount != e.evals + 1) ctx.fail("condition-state-lost", fmt("the condition object of #%d is at its evaluation number %d, the remover has evaluated it %d times: it is not the stored object that is being evaluated", id, selfCount, e.evals + 1));
		bool r = e.evals < 31 ? ((e.bits >> e.evals) & 1u) : false; ++e.evals;
		ctx.log(fmt("  condition of #%d -> %d", id, (int)r));
		return r;
	}
	void onCall(int id, int v) override {
		ctx.obs(8000 + id); ctx.obs(v);
		ctx.log(fmt("  call #%d", id));
		if(frames.empty()) { ctx.fail("call-outside-trigger", fmt("listener #%d ran outside a trigger", id)); return; }
		size_t fi = frames.size() - 1;
		Frame & f = frames[fi];
		while(f.idx < f.snap.size() && !att(f.snap[f.idx])) ++f.idx;
		if(f.idx >= f.snap.size() || f.snap[f.idx] != id) {
			const char * clause = "listener-unexpected";
			if(!att(id) && ent[id].kind == COUNTER) clause = "counter-listener-invoked-too-often";
			else if(!att(id) && ent[id].kind == COND) clause = "conditional-listener-invoked-after-condition";
			ctx.fail(clause, fmt("listener #%d was invoked, the model expected %s", id, f.idx < f.snap.size() ? fmt("#%d", f.snap[f.idx]).c_str() : "the trigger to return"));
			return;
		}
		++f.idx;
		if(v != f.v) ctx.fail("arguments-altered", fmt("listener #%d received %d instead of %d", id, v, f.v));
		Entry & e = ent[id];
		if(e.kind == COUNTER) { if(--e.remaining <= 0) detach(id); }
		else if(e.kind == COND) {
			if(!(condExpectedFor == id && condSeen) && !ctx.failed) ctx.fail("condition-not-evaluated", fmt("wrapped listener #%d ran without its condition having been evaluated for this trigger", id));
			condSeen = false; condExpectedFor = -1;
			// detach if the evaluation just made returned true
			if(e.evals >= 1 && e.evals <= 31 && ((e.bits >> (e.evals - 1)) & 1u)) detach(id);
		}
		if(e.kind == PLAIN || !cfg.nested || ctx.failed) return;
		for(;;) {
			int a = ctx.ex.choose(4, 1, K_PROG);
			if(a == 0 || ctx.failed) return;
			if(a == 1) { if((int)frames.size() >= cfg.maxNest) return; doTrigger(true); }
			else if(a == 2) doRemove(id, "(from inside itself) ");
			else { if(slot[0] < 0) return; doRemove(slot[0], "(from inside a wrapped listener) "); }
		}
	}

	int menu() const { return 1 + 18 + 16 + 4 + 3 + 1; }
	void topOp(Bfs & b, int op) {
		if(op < 1) { if((int)order.size() >= cfg.K) b.skip(); addPlain(); return; } op -= 1;
		if(op < 18) { if((int)order.size() >= cfg.K || wrapped() >= cfg.maxWrapped) b.skip(); static const int ns[] = {1, 2, 3, 0, -1, -2}; addCounter(ns[op / 3], op % 3); return; } op -= 18;
		if(op < 16) { if((int)order.size() >= cfg.K || wrapped() >= cfg.maxWrapped) b.skip(); int pos = op % 2; addCond(op / 4, (op / 2) % 2, pos); return; } op -= 16;
		if(op < 4) { if((int)order.size() >= cfg.K || wrapped() >= cfg.maxWrapped) b.skip(); addCond(op, 2, 0); return; } op -= 4;
		if(op < 3) { if(slot[op] < 0) b.skip(); doRemove(slot[op], ""); return; } op -= 3;
		doTrigger(false);
	}
	std::string key() {
		std::string k;
		for(int id : order) { const Entry & e = ent[id]; k += e.kind == PLAIN ? std::string("p,") : e.kind == COUNTER ? fmt("c%d,", e.remaining) : fmt("q%x.%d,", e.evals < 31 ? e.bits >> e.evals : 0u, (int)e.withArgs); }
		k += "|";
		for(int i = 0; i < 3; ++i) k += slot[i] < 0 ? std::string("e,") : att(slot[i]) ? fmt("%d,", (int)(std::find(order.begin(), order.end(), slot[i]) - order.begin())) : std::string("d,");
		return k + fmt("a%d", adds % 3);
	}
	void body(Bfs & b) {
		ledger().reset();
		g_h = this; ent.clear(); handleOf.clear(); order.clear(); frames.clear();
		for(int i = 0; i < 3; ++i) slot[i] = -1;
		adds = 0; triggers = 0; condExpectedFor = -1; condSeen = false;
		T target; t = &target;
		struct Clear { Harness * h; ~Clear() { h->handleOf.clear(); h->t = nullptr; } } clr{this};
		b.stepEnd(key());
		for(;;) {
			int op = b.chooseOp(menu()); topOp(b, op);
			frames.clear();
			checkLedgerErrors(ctx, "quiescent");
			if(!ctx.failed && ledger().liveTotal(TC_CALLBACK, false) != (int)order.size()) ctx.fail("ledger-callback-count", fmt("%d listener objects alive, %zu attached in the model: %s", ledger().liveTotal(TC_CALLBACK, false), order.size(), ledger().describeLive().c_str()));
			b.stepEnd(key());
		}
	}
	void after() { checkLedgerErrors(ctx, "after destruction"); if(ledger().liveAll() != 0 && !ctx.failed) ctx.fail("ledger-leak-after-destruction", ledger().describeLive()); }
};

template <typename A>
static void addUnit(const std::string & name, int minTier, Cfg cfg, int dq, int dt, int bq, int bt) {
	Unit u; u.name = name; u.minTier = minTier;
	u.run = [=](Ctx & ctx, UnitReport & rep, int tier) {
		Harness<A> h(ctx, cfg);
		BfsOptions o; o.keyIncludesLastOp = true; o.maxDepth = tier ? dt : dq; o.innerBudget = tier ? bt : bq;
		Bfs b(ctx, o);
		b.run([&](Bfs & bb) { h.body(bb); }, [&]() { h.after(); });
		fillBfsReport(rep, b.res);
		rep.str["config"] = fmt("%s K=%d wrapped<=%d nested budget %d depth %d", A::name(), cfg.K, cfg.maxWrapped, o.innerBudget, o.maxDepth);
	};
	u.replay = [=](Ctx & ctx, const std::vector<int> & seq) { Harness<A> h(ctx, cfg); replayBody(ctx, seq, [&](Bfs & bb) { h.body(bb); }, [&]() { h.after(); }); };
	units().push_back(u);
}

#ifndef VERIF_SUB
#define VERIF_SUB -1
#endif
#define SEL(s) (VERIF_SUB < 0 || VERIF_SUB == (s))
using ST = eventpp::SingleThreading;
using MT = eventpp::MultipleThreading;
static struct Register {
	Register() {
		Cfg c;
#if SEL(0)
		addUnit<TList<MT> >("C16/CallbackList/multi", 0, c, 4, 7, 1, 2);
#endif
#if SEL(1)
		addUnit<TDisp<VThreading> >("C16/EventDispatcher/vmutex", 0, c, 4, 7, 1, 2);
#endif
#if SEL(2)
		addUnit<TQueue<MT> >("C16/EventQueue/multi", 0, c, 4, 7, 1, 2);
#endif
#if SEL(3)
		addUnit<THeterList<MT> >("C16/HeterCallbackList/multi", 0, c, 4, 6, 1, 2);
		addUnit<THeterDisp<ST> >("C16/HeterEventDispatcher/single", 0, c, 4, 6, 1, 2);
#endif
	}
} reg;

VERIF_MAIN("removers")
