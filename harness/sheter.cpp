// Engine S harness for C03 on the heterogeneous classes: concurrent listener management and invocation on one
// HeterCallbackList / HeterEventDispatcher. The per-prototype lists inside are created lazily and published under
// callbackListListMutex (Threading policy -> VMutex, a scheduling point); the dispatcher's map is guarded by listenerMutex.
// The inner CallbackLists always use std::mutex (they ignore the Threading policy), so their own hook points are switched
// off here (a switch inside a real critical section would block the OS thread): inner-list operations are atomic blocks.
// Oracle (functions of call results and of the final state): every append that returned is reached by the invocation made
// after all threads joined, exactly once, unless it was removed; a handle is removed successfully at most once; an
// invocation calls no callback twice and calls every callback that was registered for its whole duration; no deadlock.
#define VERIF_DEFINE_HOOKS
#include "../fw/core.h"
#include "../fw/ledger.h"
#include "../fw/sched.h"
#include <eventpp/hetercallbacklist.h>
#include <eventpp/hetereventdispatcher.h>

using namespace verif;

struct Pol { using Threading = VThreading; };
typedef eventpp::HeterTuple<void(int), void(const std::string &)> HT;

struct Seen { std::vector<int> ids; };
static thread_local Seen * g_seen = nullptr;
struct CbInt { int id; void operator()(int) const { if(g_seen) g_seen->ids.push_back(id); } };
struct CbStr { int id; void operator()(const std::string &) const { if(g_seen) g_seen->ids.push_back(id); } };

enum OpKind { O_APPEND_INT, O_APPEND_STR, O_PREPEND_INT, O_INVOKE_INT, O_INVOKE_STR, O_REMOVE_H0, O_APPEND_STR_KEY2, NOPS };
static const char * opName(int k) { static const char * n[] = {"append(void(int))", "append(void(string))", "prepend(void(int))", "invoke(int)", "invoke(string)", "remove(h0)", "append(void(string)) on a second event"}; return n[k]; }

typedef std::vector<int> Prog;
struct Config {
	std::vector<Prog> threads; bool initial;   // initial: one void(int) callback (#0, handle h0) registered before the threads start
	std::string name() const {
		std::string s = initial ? "initially [#0 void(int)]: " : "initially empty: ";
		for(size_t t = 0; t < threads.size(); ++t) { s += fmt("%sT%zu[", t ? " || " : "", t + 1); for(size_t i = 0; i < threads[t].size(); ++i) s += std::string(i ? "; " : "") + opName(threads[t][i]); s += "]"; }
		return s;
	}
};

struct ListSubject {
	typedef eventpp::HeterCallbackList<HT, Pol> T;
	typedef T::Handle Handle;
	T obj;
	static const char * name() { return "HeterCallbackList"; }
	void share() { sched().addSharedRange(&obj, sizeof obj); }
	Handle appendInt(int id) { return obj.append(CbInt{id}); }
	Handle prependInt(int id) { return obj.prepend(CbInt{id}); }
	Handle appendStr(int id, bool) { return obj.append(CbStr{id}); }
	void invokeInt() { obj(1); }
	void invokeStr() { obj(std::string("s")); }
	void invokeStr2() {}
	bool remove(const Handle & h) { return obj.remove(h); }
	static bool hasKey2() { return false; }
};
struct DispSubject {
	typedef eventpp::HeterEventDispatcher<int, HT, Pol> T;
	typedef T::Handle Handle;
	T obj;
	static const char * name() { return "HeterEventDispatcher"; }
	void share() { sched().addSharedRange(&obj, sizeof obj); }
	Handle appendInt(int id) { return obj.appendListener(5, CbInt{id}); }
	Handle prependInt(int id) { return obj.prependListener(5, CbInt{id}); }
	Handle appendStr(int id, bool key2) { return obj.appendListener(key2 ? 6 : 5, CbStr{id}); }
	void invokeInt() { obj.dispatch(5, 1); }
	void invokeStr() { obj.dispatch(5, std::string("s")); }
	void invokeStr2() { obj.dispatch(6, std::string("s")); }
	bool remove(const Handle & h) { return obj.removeListener(5, h); }
	static bool hasKey2() { return true; }
};

template <typename S>
struct Run {
	Ctx & ctx; const Config & cfg;
	S * subj = nullptr;
	typename S::Handle h0;
	struct Added { int id; int proto; bool key2; bool returned; };
	std::vector<Added> added;           // by the threads
	int removeSuccess = 0; bool removeAttempted = false;
	struct Inv { int proto; std::vector<int> ids; bool done; };
	std::vector<Inv> invs;
	int nextId = 1;
	Run(Ctx & c, const Config & cf) : ctx(c), cfg(cf) {}

	void op(int thread, int k) {
		switch(k) {
		case O_APPEND_INT: case O_PREPEND_INT: case O_APPEND_STR: case O_APPEND_STR_KEY2: {
			size_t ai = added.size(); int id = nextId++;
			added.push_back(Added{id, (k == O_APPEND_STR || k == O_APPEND_STR_KEY2) ? 1 : 0, k == O_APPEND_STR_KEY2, false});
			if(k == O_APPEND_INT) subj->appendInt(id); else if(k == O_PREPEND_INT) subj->prependInt(id); else subj->appendStr(id, k == O_APPEND_STR_KEY2);
			added[ai].returned = true;
			if(ctx.wantLog()) ctx.log(fmt("T%d: %s -> #%d", thread, opName(k), id));
			break;
		}
		case O_INVOKE_INT: case O_INVOKE_STR: {
			size_t ii = invs.size(); invs.push_back(Inv{k == O_INVOKE_STR ? 1 : 0, {}, false});
			Seen seen; g_seen = &seen;
			if(k == O_INVOKE_INT) subj->invokeInt(); else subj->invokeStr();
			g_seen = nullptr;
			invs[ii].ids = seen.ids; invs[ii].done = true;
			if(ctx.wantLog()) { std::string s; for(int x : seen.ids) s += fmt("#%d ", x); ctx.log(fmt("T%d: %s called [%s]", thread, opName(k), s.c_str())); }
			break;
		}
		case O_REMOVE_H0: {
			removeAttempted = true;
			bool r = subj->remove(h0);
			if(r) ++removeSuccess;
			if(ctx.wantLog()) ctx.log(fmt("T%d: remove(h0) -> %d", thread, (int)r));
			break;
		}
		}
	}
	void runThread(int thread) { for(int k : cfg.threads[thread - 1]) op(thread, k); }

	void run() {
		Sched & s = sched();
		s.begin();
		s.ignoreTagPrefix = "callbacklist.";
		bool aborted = false;
		{
			S subject; subj = &subject;
			subject.share();
			if(cfg.initial) h0 = subject.appendInt(0);
			try {
				for(size_t t = 0; t < cfg.threads.size(); ++t) { int tn = (int)t + 1; s.spawn([this, tn]() { runThread(tn); }); }
				s.joinAll();
			}
			catch(SchedAbort &) { aborted = true; }
			s.end();
			s.ignoreTagPrefix = nullptr;
			if(aborted) { if(s.deadlock.happened && !ctx.failed) ctx.fail("deadlock", "threads are blocked for ever on a mutex"); }
			else evaluate(subject);
			subj = nullptr;
		}
		ctx.obs(aborted ? 9 : 1);
	}

	void evaluate(S & subject) {
		if(ctx.failed) return;
		bool initialPresent = cfg.initial && removeSuccess == 0;
		if(removeSuccess > 1) { ctx.fail("removed-twice", fmt("remove(h0) succeeded %d times", removeSuccess)); return; }
		if(cfg.initial && removeAttempted && removeSuccess == 0) { ctx.fail("remove-failed", "no remove(h0) succeeded although #0 was registered before the threads started"); return; }
		// concurrent invocations
		for(auto & iv : invs) {
			std::vector<int> sorted = iv.ids; std::sort(sorted.begin(), sorted.end());
			if(std::adjacent_find(sorted.begin(), sorted.end()) != sorted.end()) { ctx.fail("callback-called-twice", "an invocation called one callback twice"); return; }
			for(int id : iv.ids) {
				bool ok = (id == 0 && cfg.initial && iv.proto == 0);
				for(auto & a : added) if(a.id == id && a.proto == iv.proto && !a.key2) ok = true;
				if(!ok) { ctx.fail("callback-of-other-prototype-or-unknown", fmt("an invocation of prototype %d called #%d", iv.proto, id)); return; }
			}
			if(iv.proto == 0 && cfg.initial && !removeAttempted && std::find(iv.ids.begin(), iv.ids.end(), 0) == iv.ids.end()) { ctx.fail("callback-missed", "an invocation did not call #0, which was registered for its whole duration"); return; }
		}
		// final state, after all threads joined
		Seen a, b, c;
		g_seen = &a; subject.invokeInt(); g_seen = &b; subject.invokeStr(); g_seen = &c; subject.invokeStr2(); g_seen = nullptr;
		std::vector<int> wantA, wantB, wantC;
		if(initialPresent) wantA.push_back(0);
		for(auto & x : added) { if(x.proto == 0) wantA.push_back(x.id); else if(x.key2) wantC.push_back(x.id); else wantB.push_back(x.id); }
		auto same = [](std::vector<int> x, std::vector<int> y) { std::sort(x.begin(), x.end()); std::sort(y.begin(), y.end()); return x == y; };
		auto show = [](const std::vector<int> & v) { std::string s = "["; for(int x : v) s += fmt("#%d ", x); return s + "]"; };
		if(!same(a.ids, wantA)) { ctx.fail("registration-lost-or-duplicated", fmt("after all threads finished invoke(int) calls %s, registered and not removed: %s", show(a.ids).c_str(), show(wantA).c_str())); return; }
		if(!same(b.ids, wantB)) { ctx.fail("registration-lost-or-duplicated", fmt("after all threads finished invoke(string) calls %s, registered: %s", show(b.ids).c_str(), show(wantB).c_str())); return; }
		if(S::hasKey2() && !same(c.ids, wantC)) { ctx.fail("registration-lost-or-duplicated", fmt("after all threads finished dispatch(second event) calls %s, registered: %s", show(c.ids).c_str(), show(wantC).c_str())); return; }
		for(int x : a.ids) ctx.obs((uint64_t)x + 10); for(int x : b.ids) ctx.obs((uint64_t)x + 50);
	}
};

static std::vector<Config> configs(bool disp, int tier) {
	std::vector<Config> v;
	std::vector<int> alpha = {O_APPEND_INT, O_APPEND_STR, O_PREPEND_INT, O_INVOKE_INT, O_INVOKE_STR, O_REMOVE_H0};
	if(disp) alpha.push_back(O_APPEND_STR_KEY2);
	for(int initial = 0; initial <= 1; ++initial) {
		// 2 threads x 1 op: all pairs
		for(size_t i = 0; i < alpha.size(); ++i) for(size_t j = i; j < alpha.size(); ++j) {
			if(!initial && (alpha[i] == O_REMOVE_H0 || alpha[j] == O_REMOVE_H0)) continue;
			v.push_back(Config{{{alpha[i]}, {alpha[j]}}, initial != 0});
		}
		// 3 threads x 1 op around the lazily created per-prototype list: two creators/users of the same prototype + one more
		for(int third : {O_INVOKE_STR, O_APPEND_INT, O_APPEND_STR}) v.push_back(Config{{{O_APPEND_STR}, {O_INVOKE_STR}, {third}}, initial != 0});
		if(tier >= 1) {
			// 2 threads x 2 ops
			for(int a : {O_APPEND_STR, O_INVOKE_STR, O_APPEND_INT}) for(int b : {O_INVOKE_STR, O_APPEND_STR, O_INVOKE_INT}) for(int c : {O_APPEND_STR, O_INVOKE_STR, O_REMOVE_H0}) {
				if(!initial && c == O_REMOVE_H0) continue;
				v.push_back(Config{{{a, b}, {c, O_INVOKE_INT}}, initial != 0});
			}
		}
	}
	return v;
}

template <typename S>
static void addFamily(const std::string & name, bool disp, int boundQuick, int boundThorough) {
	Unit u; u.name = name; u.minTier = 0;
	u.run = [=](Ctx & ctx, UnitReport & rep, int tier) {
		std::vector<Config> mine = configs(disp, tier);
		int bound = tier ? boundThorough : boundQuick;
		long deadlocks = 0;
		for(size_t ci = 0; ci < mine.size(); ++ci) {
			const Config & cfg = mine[ci];
			if(ctx.samples.size() < ctx.maxSamples) ctx.samples.push_back(cfg.name());
			DfsResult r = dfs(ctx, bound, [&]() {
				ctx.ex.choose(1000, 1000, K_OP);
				Run<S> run(ctx, cfg); run.run();
				if(sched().deadlock.happened) ++deadlocks;
			}, nullptr, std::vector<int>{(int)ci + 1});
			if(!r.complete) { rep.exhaustive = false; break; }
			rep.num["configs_completed"] += 1;
		}
		rep.num["configs"] = (double)mine.size(); rep.num["max_preemption_bound"] = bound; rep.num["deadlock_outcomes"] = (double)deadlocks;
		rep.num["executions"] = (double)ctx.executions;
		rep.str["config"] = fmt("%s, Threading = V-policy, inner per-prototype lists atomic: %zu configurations, preemption bound %d", S::name(), mine.size(), bound);
	};
	u.replay = [=](Ctx & ctx, const std::vector<int> & seq) {
		if(seq.empty()) return;
		std::vector<Config> mine = configs(disp, ctx.tier);
		size_t ci = (size_t)seq[0] - 1;
		if(ci >= mine.size()) return;
		ctx.ex.prefix = seq; ctx.ex.stack.clear(); ctx.ex.defaultsOnly = true; ctx.ex.beginExecution();
		ctx.ex.choose(1000, 1000, K_OP);
		ctx.tracing = true; ctx.trace.clear(); ctx.failed = false;
		ctx.log("configuration: " + mine[ci].name());
		Run<S> run(ctx, mine[ci]); run.run();
	};
	units().push_back(u);
}

static struct Register {
	Register() {
		addFamily<ListSubject>("C03/heter/HeterCallbackList", false, 2, 3);
		addFamily<DispSubject>("C03/heter/HeterEventDispatcher", true, 2, 3);
	}
} reg;

VERIF_MAIN("sheter")
