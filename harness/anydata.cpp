// Bounded-exhaustive enumeration for C17: AnyData holds, moves and destroys its value like the value itself.
// Payload families of every size from 1 byte to beyond the inline capacity (incl. capacity and capacity+1),
// four kinds (trivial bytes, tracked non-trivial, move-only, shared ownership), four capacities.
#define VERIF_DEFINE_HOOKS
#include "../fw/core.h"
#include "../fw/ledger.h"
#include "../fw/sched.h"
#include <eventpp/utilities/anydata.h>
#include <eventpp/eventqueue.h>
#include <memory>

using namespace verif;

static unsigned char patternByte(int id, int i) { return (unsigned char)((id * 31 + i * 7 + 3) & 0xff); }

template <int N>
struct PTrivial {
	unsigned char b[N];
	explicit PTrivial(int id) { for(int i = 0; i < N; ++i) b[i] = patternByte(id, i); }
	bool ok(int id) const { for(int i = 0; i < N; ++i) if(b[i] != patternByte(id, i)) return false; return true; }
	static const char * kind() { return "trivial"; }
	static const bool copyable = true, tracked = false;
};
template <int N>     // N >= 5: 4 id bytes (alignment 1, so every size exists) + padding
struct PTracked {
	unsigned char idb[4]; unsigned char pad[N - 4];
	int id() const { int v; memcpy(&v, idb, 4); return v; }
	void setId(int v) { memcpy(idb, &v, 4); }
	explicit PTracked(int id_) { setId(id_); for(int i = 0; i < N - 4; ++i) pad[i] = patternByte(id_, i); ledger().born(this, TC_PAYLOAD, id_); }
	PTracked(const PTracked & o) { ledger().touch(&o, TC_PAYLOAD, o.id()); memcpy(idb, o.idb, 4); memcpy(pad, o.pad, N - 4); ledger().born(this, TC_PAYLOAD, id(), false, 1); ++ledger().copies; }
	PTracked(PTracked && o) noexcept { ledger().touch(&o, TC_PAYLOAD, o.id()); memcpy(idb, o.idb, 4); memcpy(pad, o.pad, N - 4); ledger().born(this, TC_PAYLOAD, id()); ledger().setMoved(&o); ++ledger().moves; }
	PTracked & operator=(const PTracked &) = delete;
	~PTracked() { ledger().died(this, TC_PAYLOAD, id()); }
	bool ok(int id_) const { if(!ledger().touch(this, TC_PAYLOAD, id()) || id() != id_) return false; for(int i = 0; i < N - 4; ++i) if(pad[i] != patternByte(id_, i)) return false; return true; }
	static const char * kind() { return "tracked"; }
	static const bool copyable = true, tracked = true;
};
template <int N>     // N multiple of 8, >= 16
struct PMoveOnly {
	std::unique_ptr<int> p; unsigned char pad[N - 8];
	explicit PMoveOnly(int id) : p(new int(id)) { for(int i = 0; i < N - 8; ++i) pad[i] = patternByte(id, i); }
	PMoveOnly(PMoveOnly && o) noexcept : p(std::move(o.p)) { memcpy(pad, o.pad, N - 8); }
	bool ok(int id) const { if(!p || *p != id) return false; for(int i = 0; i < N - 8; ++i) if(pad[i] != patternByte(id, i)) return false; return true; }
	static const char * kind() { return "move-only"; }
	static const bool copyable = false, tracked = false;
};
template <int N>     // N multiple of 8, >= 24
struct PShared {
	std::shared_ptr<int> p; unsigned char pad[N - 16];
	explicit PShared(int id) : p(std::make_shared<int>(id)) { for(int i = 0; i < N - 16; ++i) pad[i] = patternByte(id, i); }
	bool ok(int id) const { if(!p || *p != id) return false; for(int i = 0; i < N - 16; ++i) if(pad[i] != patternByte(id, i)) return false; return true; }
	static const char * kind() { return "shared-ownership"; }
	static const bool copyable = true, tracked = false;
};

template <int N>     // N multiple of 8, >= 16: trivially destructible but NOT trivially movable (points into itself)
struct PSelfRef {
	unsigned char buf[N - 8]; const unsigned char * self;
	explicit PSelfRef(int id) : self(buf) { for(int i = 0; i < N - 8; ++i) buf[i] = patternByte(id, i); }
	PSelfRef(const PSelfRef & o) : self(buf) { memcpy(buf, o.buf, N - 8); }
	PSelfRef(PSelfRef && o) noexcept : self(buf) { memcpy(buf, o.buf, N - 8); }
	bool ok(int id) const { if(self != buf) return false; for(int i = 0; i < N - 8; ++i) if(self[i] != patternByte(id, i)) return false; return true; }
	static const char * kind() { return "self-referential (trivially destructible, user move)"; }
	static const bool copyable = true, tracked = false;
};

// a tracked payload whose k-th copy or move construction throws (C17 x C09: "every held object is destroyed exactly once"
// also when building or moving the holder fails half-way - in particular no destructor may run on storage that never held
// an object, which the ledger reports as the destruction of an object that is not alive)
struct HolderFault {};
static int g_throwAt = 0, g_ctorCalls = 0;
template <int N>
struct PThrowing {
	unsigned char idb[4]; unsigned char pad[N - 4];
	int id() const { int v; memcpy(&v, idb, 4); return v; }
	explicit PThrowing(int id_) { memcpy(idb, &id_, 4); for(int i = 0; i < N - 4; ++i) pad[i] = patternByte(id_, i); ledger().born(this, TC_PAYLOAD, id_); }
	void maybeThrow() { ++g_ctorCalls; if(g_throwAt > 0 && g_ctorCalls == g_throwAt) throw HolderFault{}; }
	PThrowing(const PThrowing & o) { maybeThrow(); ledger().touch(&o, TC_PAYLOAD, o.id()); memcpy(idb, o.idb, 4); memcpy(pad, o.pad, N - 4); ledger().born(this, TC_PAYLOAD, id(), false, 1); }
	PThrowing(PThrowing && o) { maybeThrow(); ledger().touch(&o, TC_PAYLOAD, o.id()); memcpy(idb, o.idb, 4); memcpy(pad, o.pad, N - 4); ledger().born(this, TC_PAYLOAD, id()); ledger().setMoved(&o); }
	PThrowing & operator=(const PThrowing &) = delete;
	~PThrowing() { ledger().died(this, TC_PAYLOAD, id()); }
	bool ok(int id_) const { if(!ledger().touch(this, TC_PAYLOAD, id()) || id() != id_) return false; for(int i = 0; i < N - 4; ++i) if(pad[i] != patternByte(id_, i)) return false; return true; }
	static const char * kind() { return "tracked, copy/move may throw"; }
};

// a type with class-level allocation functions (a pooled event type): when AnyData keeps it on the heap, the copy has to be
// obtained from AND returned to the class's own operator new / operator delete, like a value of that type itself would be
static long g_poolNew = 0, g_poolDelete = 0;
template <int N>
struct PPooled {
	unsigned char b[N];
	explicit PPooled(int id) { for(int i = 0; i < N; ++i) b[i] = patternByte(id, i); }
	bool ok(int id) const { for(int i = 0; i < N; ++i) if(b[i] != patternByte(id, i)) return false; return true; }
	static void * operator new(std::size_t n) { ++g_poolNew; return ::operator new(n); }
	static void operator delete(void * p) { ++g_poolDelete; ::operator delete(p); }
	static void * operator new(std::size_t, void * where) noexcept { return where; }      // the placement form is hidden otherwise
	static void operator delete(void *, void *) noexcept {}
	static const char * kind() { return "pooled (class-level operator new/delete)"; }
	static const bool copyable = true, tracked = false;
};

struct Case { std::string name; void (*fn)(Ctx &, const std::string &); };
static std::vector<Case> & cases() { static std::vector<Case> c; return c; }

template <size_t Cap, typename P> struct Probe {
	// isType must be true exactly for the stored type (cv/ref-insensitive)
	template <typename U> static void one(Ctx & ctx, const eventpp::AnyData<Cap> & a, const std::string & nm, const char * un) {
		bool same = std::is_same<U, P>::value;
		if(a.template isType<U>() != same) ctx.fail(same ? "istype-false-for-stored-type" : "istype-true-for-other-type", fmt("%s: isType<%s>() returned %d", nm.c_str(), un, (int)!same));
	}
	static void all(Ctx & ctx, const eventpp::AnyData<Cap> & a, const std::string & nm) {
		one<P>(ctx, a, nm, "stored type");
		if(!a.template isType<const P &>()) ctx.fail("istype-false-for-stored-type", nm + ": isType<const T&>() is false for the stored type");
		one<PTrivial<1> >(ctx, a, nm, "PTrivial<1>"); one<PTrivial<15> >(ctx, a, nm, "PTrivial<15>"); one<PTrivial<16> >(ctx, a, nm, "PTrivial<16>"); one<PTrivial<17> >(ctx, a, nm, "PTrivial<17>");
		one<PTrivial<24> >(ctx, a, nm, "PTrivial<24>"); one<PTrivial<25> >(ctx, a, nm, "PTrivial<25>"); one<PTrivial<64> >(ctx, a, nm, "PTrivial<64>"); one<PTrivial<65> >(ctx, a, nm, "PTrivial<65>");
		one<PTracked<16> >(ctx, a, nm, "PTracked<16>"); one<PTracked<17> >(ctx, a, nm, "PTracked<17>"); one<PTracked<64> >(ctx, a, nm, "PTracked<64>"); one<PTracked<65> >(ctx, a, nm, "PTracked<65>");
		one<PMoveOnly<16> >(ctx, a, nm, "PMoveOnly<16>"); one<PMoveOnly<24> >(ctx, a, nm, "PMoveOnly<24>"); one<PMoveOnly<72> >(ctx, a, nm, "PMoveOnly<72>");
		one<PSelfRef<16> >(ctx, a, nm, "PSelfRef<16>"); one<PSelfRef<64> >(ctx, a, nm, "PSelfRef<64>"); one<PShared<24> >(ctx, a, nm, "PShared<24>"); one<PShared<32> >(ctx, a, nm, "PShared<32>"); one<PShared<72> >(ctx, a, nm, "PShared<72>");
		one<int>(ctx, a, nm, "int"); one<std::string>(ctx, a, nm, "std::string"); one<eventpp::anydata_internal_::LargeData>(ctx, a, nm, "LargeData");
	}
};

template <size_t Cap, typename P>
static void readBack(Ctx & ctx, const eventpp::AnyData<Cap> & a, int id, const std::string & nm, const char * where) {
	const void * addr = a.getAddress();
	if(addr != a.getAddress()) ctx.fail("address-unstable", nm + ": getAddress() changed between two reads");
	const P & r = a.template get<P>();
	if(&r != addr) ctx.fail("accessors-disagree", nm + ": get<T>() does not refer to getAddress()");
	if(!r.ok(id)) ctx.fail("value-not-intact", fmt("%s: value read back through get<T>() %s is not the stored value", nm.c_str(), where));
	P & r2 = a; if(&r2 != addr || !r2.ok(id)) ctx.fail("accessors-disagree", nm + ": conversion to T& yields a different object");
	P * p3 = a; if(p3 != addr) ctx.fail("accessors-disagree", nm + ": conversion to T* yields a different address");
	Probe<Cap, P>::all(ctx, a, nm);
}

template <size_t Cap, typename P, bool Copyable> struct Construct;
template <size_t Cap, typename P> struct Construct<Cap, P, true> {
	static eventpp::AnyData<Cap> make(int cat, int id, Ctx & ctx, const std::string & nm) {
		if(cat == 0) { P lv(id); eventpp::AnyData<Cap> a(lv); if(!lv.ok(id)) ctx.fail("source-modified", nm + ": constructing from an lvalue modified it"); return a; }
		if(cat == 1) { const P clv(id); eventpp::AnyData<Cap> a(clv); if(!clv.ok(id)) ctx.fail("source-modified", nm + ": constructing from a const lvalue modified it"); return a; }
		return eventpp::AnyData<Cap>(P(id));
	}
};
template <size_t Cap, typename P> struct Construct<Cap, P, false> { static eventpp::AnyData<Cap> make(int, int id, Ctx &, const std::string &) { return eventpp::AnyData<Cap>(P(id)); } };

template <size_t Cap, typename P>
static void testOne(Ctx & ctx, const std::string & nm0) {
	HarnessScope noFaults;
	ledger().reset();
	g_poolNew = g_poolDelete = 0;
	int cat = ctx.ex.choose(P::copyable ? 3 : 1, 3, K_OP);
	if(!P::copyable) cat = 2;
	int chain = ctx.ex.choose(4, 4, K_OP);
	int viaQueue = ctx.ex.choose(2, 2, K_OP);
	int id = 40 + cat * 7 + chain;
	static const char * cn[] = {"lvalue", "const lvalue", "rvalue"};
	std::string nm = nm0 + fmt(" from %s, %d moves%s", cn[cat], chain, viaQueue ? ", through an EventQueue" : "");
	ctx.log(nm);
	long copiesBefore = ledger().copies;
	{
		typedef eventpp::AnyData<Cap> AD;
		AD a0 = Construct<Cap, P, P::copyable>::make(cat, id, ctx, nm);
		readBack<Cap, P>(ctx, a0, id, nm, "after construction");
		if(chain == 0) { /* nothing */ }
		else {
			AD a1(std::move(a0));
			readBack<Cap, P>(ctx, a1, id, nm, "after 1 move");
			if(chain >= 2) { AD a2(std::move(a1)); readBack<Cap, P>(ctx, a2, id, nm, "after 2 moves");
				if(chain >= 3) { AD a3(std::move(a2)); readBack<Cap, P>(ctx, a3, id, nm, "after 3 moves"); } }
		}
		// copies made by AnyData itself: exactly one when constructed from an lvalue, none otherwise and never when moving
		long madeCopies = ledger().copies - copiesBefore;
		if(P::tracked && madeCopies != (cat == 2 ? 0 : 1)) ctx.fail("unexpected-copies", fmt("%s: %ld copies of the held object were made", nm.c_str(), madeCopies));
		if(viaQueue) {
			eventpp::EventQueue<int, void(const AD &)> q;
			int seen = 0;
			q.appendListener(1, [&](const AD & d) { ++seen; if(!d.template isType<P>()) ctx.fail("istype-false-for-stored-type", nm + ": queued AnyData lost its type"); else if(!d.template get<P>().ok(id + seen)) ctx.fail("value-not-intact", nm + ": value damaged on the way through the queue"); });
			q.enqueue(1, P(id + 1)); q.enqueue(1, P(id + 2));
			q.process();
			q.enqueue(1, P(id + 3));                  // recycled slot
			q.processOne();
			q.enqueue(1, P(id + 9));                  // stays queued: released by clearEvents
			q.clearEvents();
			q.enqueue(1, P(id + 9));                  // stays queued: released by the destructor
			if(seen != 3) ctx.fail("queue-dispatch-count", fmt("%s: %d of 3 queued AnyData events were dispatched", nm.c_str(), seen));
		}
	}
	checkLedgerErrors(ctx, "after destruction");
	if(ledger().liveAll() != 0 && !ctx.failed) ctx.fail("held-object-not-destroyed-exactly-once", nm + ": objects still alive after every AnyData was destroyed: " + ledger().describeLive());
	if(g_poolNew != g_poolDelete && !ctx.failed) ctx.fail("allocation-functions-mismatched", fmt("%s: the held type's operator new ran %ld times, its operator delete %ld times", nm.c_str(), g_poolNew, g_poolDelete));
	ctx.obs(hashStr(nm));
}

// one scenario (construct from an lvalue, two moves of the holder, a queue round trip), with the k-th copy/move
// construction of the held type throwing, for every k until a run completes without a throw
template <size_t Cap, typename P>
static void testThrowing(Ctx & ctx, const std::string & nm0) {
	HarnessScope noFaults;
	typedef eventpp::AnyData<Cap> AD;
	int k = ctx.ex.choose(12, 12, K_OP);      // 0 = no fault (reference run), otherwise the k-th construction throws
	ledger().reset();
	g_ctorCalls = 0; g_throwAt = k;
	std::string nm = nm0 + (k ? fmt(", construction #%d of the held type throws", k) : std::string(", no fault"));
	ctx.log(nm);
	bool thrown = false;
	try {
		P lv(70);
		AD a0(lv);
		AD a1(std::move(a0));
		AD a2(std::move(a1));
		if(!a2.template isType<P>() || !a2.template get<P>().ok(70)) ctx.fail("value-not-intact", nm + ": the value read back after two moves is not the stored value");
		eventpp::EventQueue<int, void(const AD &)> q;
		int seen = 0;
		q.appendListener(1, [&](const AD & d) { ++seen; if(!d.template isType<P>() || !d.template get<P>().ok(70 + seen)) ctx.fail("value-not-intact", nm + ": queued value is not intact"); });
		q.enqueue(1, P(71)); q.enqueue(1, P(72));
		q.process();
		q.enqueue(1, P(73));
		q.processOne();
		q.enqueue(1, P(79));
	}
	catch(const HolderFault &) { thrown = true; }
	g_throwAt = 0;
	if(k > 0 && !thrown && g_ctorCalls >= k) ctx.fail("exception-swallowed", nm + ": the exception thrown by the held type did not reach the caller");
	checkLedgerErrors(ctx, "after destruction");
	if(ledger().liveAll() != 0 && !ctx.failed) ctx.fail("held-object-not-destroyed-exactly-once", nm + ": objects still alive after every AnyData was destroyed: " + ledger().describeLive());
	ctx.obs(hashStr(nm)); ctx.obs((uint64_t)thrown);
}
template <size_t Cap, int N> static void regThrowing() { cases().push_back(Case{fmt("AnyData<%zu> holding a %s object of %d bytes", Cap, PThrowing<N>::kind(), N), &testThrowing<Cap, PThrowing<N> >}); }

template <size_t Cap, template <int> class PT, int N, int Max, int Step>
struct Reg {
	static void add() {
		typedef PT<N> P;
		static_assert(sizeof(P) == N, "payload size");
		cases().push_back(Case{fmt("AnyData<%zu> holding a %s object of %d bytes", Cap, P::kind(), N), &testOne<Cap, P>});
		Reg<Cap, PT, N + Step, Max, Step>::add();
	}
};
template <size_t Cap, template <int> class PT, int Max, int Step> struct Reg<Cap, PT, Max, Max, Step> { static void add() {} };

template <size_t Cap, int Eff>    // Eff = effective inline capacity
static void regCap() {
	Reg<Cap, PTrivial, 1, Eff + 18, 1>::add();
	Reg<Cap, PTracked, 5, Eff + 18, 1>::add();
	Reg<Cap, PMoveOnly, 16, Eff + 32, 8>::add();
	Reg<Cap, PShared, 24, Eff + 32, 8>::add();
	Reg<Cap, PSelfRef, 16, Eff + 32, 8>::add();
	Reg<Cap, PPooled, Eff - 8, Eff + 24, 8>::add();
	regThrowing<Cap, 8>(); regThrowing<Cap, Eff - 1>(); regThrowing<Cap, Eff>(); regThrowing<Cap, Eff + 1>(); regThrowing<Cap, Eff + 9>();
}

#ifndef VERIF_SUB
#define VERIF_SUB -1
#endif
#define SEL(s) (VERIF_SUB < 0 || VERIF_SUB == (s))

static void runAll(Ctx & ctx, UnitReport & rep) {
	size_t n = cases().size();
	DfsResult r = dfs(ctx, 0, [&]() {
		int ci = ctx.ex.choose((int)n, (int)n, K_OP);
		cases()[ci].fn(ctx, cases()[ci].name);
	});
	rep.num["cases"] = (double)n;
	rep.num["executions"] = (double)r.executions;
	if(!r.complete) rep.exhaustive = false;
}

static struct Register {
	Register() {
#if SEL(0)
		regCap<1, 16>();
#endif
#if SEL(1)
		regCap<16, 16>();
#endif
#if SEL(2)
		regCap<24, 24>();
#endif
#if SEL(3)
		regCap<64, 64>();
#endif
		Unit u; u.name = fmt("C17/anydata/part%d", VERIF_SUB); u.minTier = 0;
		u.run = [](Ctx & ctx, UnitReport & rep, int) { runAll(ctx, rep); rep.str["config"] = fmt("%zu (capacity, kind, size) instantiations x construction category x move chain 0..3 x direct/queued", cases().size()); };
		u.replay = [](Ctx & ctx, const std::vector<int> & seq) {
			ctx.ex.prefix = seq; ctx.ex.stack.clear(); ctx.ex.defaultsOnly = true; ctx.ex.beginExecution(); ctx.tracing = true; ctx.failed = false;
			int ci = ctx.ex.choose((int)cases().size(), (int)cases().size(), K_OP);
			cases()[ci].fn(ctx, cases()[ci].name);
		};
		units().push_back(u);
	}
} reg;

VERIF_MAIN("anydata")
