// Engine X/H harness for C04: a type matrix of EventDispatcher instantiations (key type x how the
// prototype takes key and payload x ArgumentPassingMode x getEvent policy x Map policy), and inside each
// cell a BFS over listener histories with dispatches in every value category at the call site.
#define VERIF_DEFINE_HOOKS
#include "../fw/core.h"
#include "../fw/ledger.h"
#include "../fw/sched.h"
#include <eventpp/eventdispatcher.h>
#include <eventpp/eventqueue.h>
#include <map>
#include <unordered_map>

using namespace verif;

// ------------------------------------------------------------------ key types
enum class EK { A = 3, B = 7, C = 11 };
struct OrdKey { std::string s; bool operator<(const OrdKey & o) const { return s < o.s; } bool operator==(const OrdKey & o) const { return s == o.s; } };
struct HashKey { std::string s; bool operator==(const HashKey & o) const { return s == o.s; } };
namespace std { template <> struct hash<HashKey> { size_t operator()(const HashKey & k) const { return std::hash<std::string>()(k.s); } }; }

static std::string longStr(int i) { return fmt("key-number-%d-with-a-text-longer-than-any-small-string-buffer", i); }
template <typename K> struct KeyOps;
template <> struct KeyOps<int> { typedef long Alt; static long alt(int i) { return 100L + i; } static int make(int i) { return 100 + i; } static int index(int k) { return k - 100; } static const char * name() { return "int"; } };
template <> struct KeyOps<EK> { typedef EK Alt; static EK alt(int i) { return make(i); } static EK make(int i) { return i == 0 ? EK::A : i == 1 ? EK::B : EK::C; } static int index(EK k) { return k == EK::A ? 0 : k == EK::B ? 1 : k == EK::C ? 2 : -1; } static const char * name() { return "enum class"; } };
template <> struct KeyOps<std::string> { typedef const char * Alt; static const char * alt(int i) { static const std::string t[3] = {longStr(0), longStr(1), longStr(2)}; return t[i].c_str(); } static std::string make(int i) { return longStr(i); } static int index(const std::string & k) { for(int i = 0; i < 3; ++i) if(k == longStr(i)) return i; return -1; } static const char * name() { return "std::string"; } };
template <> struct KeyOps<OrdKey> { typedef OrdKey Alt; static OrdKey alt(int i) { return make(i); } static OrdKey make(int i) { return OrdKey{longStr(i)}; } static int index(const OrdKey & k) { return KeyOps<std::string>::index(k.s); } static const char * name() { return "struct with operator<"; } };
template <> struct KeyOps<HashKey> { typedef HashKey Alt; static HashKey alt(int i) { return make(i); } static HashKey make(int i) { return HashKey{longStr(i)}; } static int index(const HashKey & k) { return KeyOps<std::string>::index(k.s); } static const char * name() { return "struct with std::hash and =="; } };

// ------------------------------------------------------------------ observation
struct Seen { int listener; int keyIndex; int payloadId; bool intact; };
static std::vector<Seen> * g_seen = nullptr;

template <typename K>
struct LRef : TrackedBase<TC_CALLBACK> {     // takes everything by const reference
	explicit LRef(int i = 0) : TrackedBase<TC_CALLBACK>(i) {}
	void operator()(const K & k, const Tracked & t) const { if(alive() && g_seen) g_seen->push_back(Seen{id, KeyOps<K>::index(k), t.id, t.intact()}); }
	void operator()(const Tracked & t) const { if(alive() && g_seen) g_seen->push_back(Seen{id, -2, t.id, t.intact()}); }
};
template <typename K>
struct LVal : TrackedBase<TC_CALLBACK> {     // takes everything by value
	explicit LVal(int i = 0) : TrackedBase<TC_CALLBACK>(i) {}
	void operator()(K k, Tracked t) const { if(alive() && g_seen) g_seen->push_back(Seen{id, KeyOps<K>::index(k), t.id, t.intact()}); }
	void operator()(Tracked t) const { if(alive() && g_seen) g_seen->push_back(Seen{id, -2, t.id, t.intact()}); }
};

// ------------------------------------------------------------------ policies
template <typename K, typename V> struct UserOrderedMap : std::map<K, V> {};
template <typename K, typename V> struct UserHashedMap : std::unordered_map<K, V> {};

struct PolRot0 { static const int rot = 0; };
template <typename Mode, bool UserMap, bool Hashed> struct Pol;
template <typename Mode> struct Pol<Mode, false, false> : PolRot0 { using ArgumentPassingMode = Mode; using Threading = eventpp::SingleThreading; };
template <typename Mode> struct Pol<Mode, false, true> : PolRot0 { using ArgumentPassingMode = Mode; using Threading = eventpp::SingleThreading; };
template <typename Mode> struct Pol<Mode, true, false> : PolRot0 { using ArgumentPassingMode = Mode; using Threading = eventpp::SingleThreading; template <typename K, typename V> using Map = UserOrderedMap<K, V>; };
template <typename Mode> struct Pol<Mode, true, true> : PolRot0 { using ArgumentPassingMode = Mode; using Threading = eventpp::SingleThreading; template <typename K, typename V> using Map = UserHashedMap<K, V>; };

// getEvent policy that reads a field of the (only) argument; the field is one that a move clears
template <typename K, bool UserMap, bool Hashed>
struct PolGetEvent : Pol<eventpp::ArgumentPassingIncludeEvent, UserMap, Hashed> {
	static K getEvent(const Tracked & t) { long v = t.value; int id = (int)((v - 17) / 1000003L); return KeyOps<K>::make(v >= 0 && (v - 17) % 1000003L == 0 ? id % 3 : (id + 1) % 3); }
};

// getEvent policy that returns a reference to its first argument (a policy shape the detection idiom may or may not
// honour; either way the event must be the first argument's value)
template <typename K, bool UserMap, bool Hashed>
struct PolGetEventRef : Pol<eventpp::ArgumentPassingIncludeEvent, UserMap, Hashed> {
	static const K & getEvent(const K & k, const Tracked &) { return k; }
};

// getEvent policy that MAPS the first argument to another event (key i -> key i+1 mod 3) and takes the rest of the
// arguments generically, so it serves the include form getEvent(key, payload) and the exclude form
// getEvent(event, key, payload) alike: a dispatcher that fell back to "the first argument is the event" would reach the
// listeners of the wrong key
template <typename K, typename Mode, bool UserMap, bool Hashed>
struct PolGetEventRot : Pol<Mode, UserMap, Hashed> {
	static const int rot = 1;
	template <typename ...A> static K getEvent(const K & k, const A & ...) { return KeyOps<K>::make((KeyOps<K>::index(k) + 1) % 3); }
};
// the mapping as a policy written for the exclude form only: exactly (event, key, payload), callable with nothing shorter
template <typename K, bool UserMap, bool Hashed>
struct PolGetEventRotExcl : Pol<eventpp::ArgumentPassingExcludeEvent, UserMap, Hashed> {
	static const int rot = 1;
	static K getEvent(const K & ev, const K &, const Tracked &) { return KeyOps<K>::make((KeyOps<K>::index(ev) + 1) % 3); }
};
// the same mapping, returning a REFERENCE to a long-lived key object
template <typename K, typename Mode, bool UserMap, bool Hashed>
struct PolGetEventRotRef : Pol<Mode, UserMap, Hashed> {
	static const int rot = 1;
	template <typename ...A> static const K & getEvent(const K & k, const A & ...) {
		static const K table[3] = {KeyOps<K>::make(0), KeyOps<K>::make(1), KeyOps<K>::make(2)};
		return table[(KeyOps<K>::index(k) + 1) % 3];
	}
};

// C_KEY_CONVERTIBLE_LVALUE: the event is given as a non-const lvalue of a type that merely CONVERTS to the key type (a long for
// an int key, a const char* for a std::string key; the key type itself where there is no such type): the converted event is a
// temporary inside the library
enum Cat { C_LVALUE, C_CONST, C_PRVALUE, C_MOVE, C_KEY_PRVALUE_PAYLOAD_LVALUE, C_KEY_LVALUE_PAYLOAD_MOVE, C_KEY_CONVERTIBLE_LVALUE, NCAT };
static const char * catName(int c) { static const char * n[] = {"lvalues", "const lvalues", "prvalues", "std::move", "key prvalue + payload lvalue", "key lvalue + payload std::move", "key as an lvalue of a convertible type + payload lvalue"}; return n[c]; }

// ------------------------------------------------------------------ one cell
// KP: how the prototype takes the key (K or const K&); PP: payload (Tracked, const Tracked&, Tracked&)
// IsQueue: the same programs through EventQueue (enqueue in the given value categories, then process)
template <typename K, typename KP, typename PP, typename Policies, bool CustomGetEvent, bool IsQueue = false>
struct Cell {
	typedef typename std::conditional<CustomGetEvent, void(PP), void(KP, PP)>::type Prototype;
	typedef typename std::conditional<IsQueue, eventpp::EventQueue<K, Prototype, Policies>, eventpp::EventDispatcher<K, Prototype, Policies> >::type D;
	typedef typename D::Handle Handle;
	typedef typename Policies::ArgumentPassingMode Mode;
	static const bool payloadIsMutableRef = std::is_same<PP, Tracked &>::value;
	Ctx & ctx; D * d = nullptr;
	std::vector<int> order[3];
	std::vector<Handle> handleOf; std::vector<int> keyOf; std::vector<char> aliveL;
	int slot[3]; int adds = 0; int nextPayload = 1;
	Cell(Ctx & c) : ctx(c) {}
	int liveL() const { int n = 0; for(char c : aliveL) n += c; return n; }

	void add(int ki, bool prepend) {
		int id = (int)handleOf.size();
		handleOf.push_back(Handle()); keyOf.push_back(ki); aliveL.push_back(1);
		K key = KeyOps<K>::make(ki);
		// listeners alternate between taking their arguments by value and by reference
		if(id % 2) handleOf[id] = prepend ? d->prependListener(key, LVal<K>(id)) : d->appendListener(key, LVal<K>(id));
		else handleOf[id] = prepend ? d->prependListener(key, LRef<K>(id)) : d->appendListener(key, LRef<K>(id));
		if(prepend) order[ki].insert(order[ki].begin(), id); else order[ki].push_back(id);
		slot[adds % 3] = id; ++adds;
		ctx.log(fmt("%sListener(key %d) -> L%d (%s)", prepend ? "prepend" : "append", ki, id, id % 2 ? "by value" : "by reference"));
	}
	void remove(int id) {
		bool expect = aliveL[id];
		bool got = d->removeListener(KeyOps<K>::make(keyOf[id]), handleOf[id]);
		ctx.log(fmt("removeListener(L%d) -> %d", id, (int)got)); ctx.tagStep(got ? "+r1" : "+r0");
		if(expect) { auto & o = order[keyOf[id]]; o.erase(std::find(o.begin(), o.end(), id)); aliveL[id] = 0; }
		if(got != expect) ctx.fail("remove-result", fmt("removeListener(L%d) returned %d, expected %d", id, (int)got, (int)expect));
	}

	// ---- the three call forms
	template <typename KK, typename PV> void callInclude(KK && k, PV && p) { send(std::integral_constant<bool, IsQueue>(), std::forward<KK>(k), std::forward<PV>(p)); }
	template <typename KK, typename K2, typename PV> void callExclude(KK && ev, K2 && k2, PV && p) { send(std::integral_constant<bool, IsQueue>(), std::forward<KK>(ev), std::forward<K2>(k2), std::forward<PV>(p)); }
	template <typename ...A> void send(std::false_type, A && ...a) { d->dispatch(std::forward<A>(a)...); }
	template <typename ...A> void send(std::true_type, A && ...a) { d->enqueue(std::forward<A>(a)...); if(!d->process()) gctx()->fail("enqueued-event-not-processed", "process() returned false right after enqueue"); }

	template <bool Excl>
	void doDispatchForm(int ki, int cat, std::true_type /*custom getEvent*/) {
		// prototype void(PP); the key is derived from the payload by the policy: payload id % 3 == ki
		int pid = nextPayload; while(pid % 3 != ki) ++pid; nextPayload = pid + 1;
		Tracked lv(pid); const Tracked clv(pid);
		std::vector<Seen> seen; g_seen = &seen;
		withPayload(cat >= C_KEY_PRVALUE_PAYLOAD_LVALUE ? (cat != C_KEY_LVALUE_PAYLOAD_MOVE ? C_LVALUE : C_MOVE) : cat, lv, clv, pid, [&](auto && p) { callOne(std::forward<decltype(p)>(p)); });
		g_seen = nullptr;
		this->check(seen, ki, pid, -2, "dispatch(payload) with a getEvent policy", cat);
		if((cat == C_LVALUE || cat == C_KEY_PRVALUE_PAYLOAD_LVALUE || cat == C_KEY_CONVERTIBLE_LVALUE || payloadIsMutableRef) && !lv.intact()) ctx.fail("caller-lvalue-modified", "the caller's payload lvalue was modified or moved from by dispatch");
	}
	template <typename PV> void callOne(PV && p) { send(std::integral_constant<bool, IsQueue>(), std::forward<PV>(p)); }
	template <typename F> void withPayload(int pc, Tracked & lv, const Tracked & clv, int pid, F f) { withPayloadImpl(pc, lv, clv, pid, f, std::integral_constant<bool, payloadIsMutableRef>()); }
	template <typename F> void withPayloadImpl(int, Tracked & lv, const Tracked &, int, F f, std::true_type) { f(lv); }
	template <typename F> void withPayloadImpl(int pc, Tracked & lv, const Tracked & clv, int pid, F f, std::false_type) {
		if(pc == C_LVALUE || pc == C_KEY_PRVALUE_PAYLOAD_LVALUE) f(lv);
		else if(pc == C_CONST) f(clv);
		else if(pc == C_PRVALUE) f(Tracked(pid));
		else f(std::move(lv));
	}

	void callKeyForms(int cat, int pc, int ki, int shownKey, int pid, K & evLv, const K & evClv, K & k2Lv, Tracked & lv, const Tracked & clv, std::false_type) {
		(void)shownKey; (void)k2Lv;

			if(cat == C_LVALUE || cat == C_KEY_LVALUE_PAYLOAD_MOVE) withPayload(pc, lv, clv, pid, [&](auto && p) { callInclude(evLv, std::forward<decltype(p)>(p)); });
			else if(cat == C_KEY_CONVERTIBLE_LVALUE) { typename KeyOps<K>::Alt a = KeyOps<K>::alt(ki); withPayload(pc, lv, clv, pid, [&](auto && p) { callInclude(a, std::forward<decltype(p)>(p)); }); }
			else if(cat == C_CONST) withPayload(pc, lv, clv, pid, [&](auto && p) { callInclude(evClv, std::forward<decltype(p)>(p)); });
			else if(cat == C_PRVALUE || cat == C_KEY_PRVALUE_PAYLOAD_LVALUE) withPayload(pc, lv, clv, pid, [&](auto && p) { callInclude(KeyOps<K>::make(ki), std::forward<decltype(p)>(p)); });
			else withPayload(pc, lv, clv, pid, [&](auto && p) { callInclude(std::move(evLv), std::forward<decltype(p)>(p)); });
			}
	void callKeyForms(int cat, int pc, int ki, int shownKey, int pid, K & evLv, const K & evClv, K & k2Lv, Tracked & lv, const Tracked & clv, std::true_type) {

			if(cat == C_LVALUE || cat == C_KEY_LVALUE_PAYLOAD_MOVE) withPayload(pc, lv, clv, pid, [&](auto && p) { callExclude(evLv, k2Lv, std::forward<decltype(p)>(p)); });
			else if(cat == C_KEY_CONVERTIBLE_LVALUE) { typename KeyOps<K>::Alt a = KeyOps<K>::alt(ki); typename KeyOps<K>::Alt a2 = KeyOps<K>::alt(shownKey); withPayload(pc, lv, clv, pid, [&](auto && p) { callExclude(a, a2, std::forward<decltype(p)>(p)); }); }
			else if(cat == C_CONST) withPayload(pc, lv, clv, pid, [&](auto && p) { callExclude(evClv, k2Lv, std::forward<decltype(p)>(p)); });
			else if(cat == C_PRVALUE || cat == C_KEY_PRVALUE_PAYLOAD_LVALUE) withPayload(pc, lv, clv, pid, [&](auto && p) { callExclude(KeyOps<K>::make(ki), KeyOps<K>::make(shownKey), std::forward<decltype(p)>(p)); });
			else withPayload(pc, lv, clv, pid, [&](auto && p) { callExclude(std::move(evLv), std::move(k2Lv), std::forward<decltype(p)>(p)); });
			}

	template <bool Excl>
	void doDispatchForm(int ki, int cat, std::false_type) {
		int pid = nextPayload++;
		// the value passed as the event: the policy maps it to ki (identity unless the policy rotates)
		const int raw = (ki + 3 - Policies::rot) % 3;
		// in the exclude form the event is passed separately and the listeners get (otherKey, payload)
		int shownKey = Excl ? (ki + 1) % 3 : raw;
		K evLv = KeyOps<K>::make(raw); const K evClv = KeyOps<K>::make(raw);
		K k2Lv = KeyOps<K>::make(shownKey);
		Tracked lv(pid); const Tracked clv(pid);
		std::vector<Seen> seen; g_seen = &seen;
		int pc = (payloadIsMutableRef || cat == C_KEY_CONVERTIBLE_LVALUE) ? C_LVALUE : cat;
		callKeyForms(cat, pc, raw, shownKey, pid, evLv, evClv, k2Lv, lv, clv, std::integral_constant<bool, Excl>());
		g_seen = nullptr;
		this->check(seen, ki, pid, shownKey, Excl ? "dispatch(event, key, payload)" : "dispatch(key, payload)", cat);
		bool payloadLvalueKept = (pc == C_LVALUE || pc == C_KEY_PRVALUE_PAYLOAD_LVALUE);
		if(payloadLvalueKept && !lv.intact()) ctx.fail("caller-lvalue-modified", "the caller's payload lvalue was modified or moved from by dispatch");
		if((cat == C_LVALUE || cat == C_KEY_LVALUE_PAYLOAD_MOVE) && KeyOps<K>::index(evLv) != raw) ctx.fail("caller-lvalue-modified", "the caller's key lvalue was modified or moved from by dispatch");
	}

	void check(const std::vector<Seen> & seen, int ki, int pid, int shownKey, const char * form, int cat) {
		for(auto & s : seen) { ctx.obs(s.listener * 16 + (s.keyIndex + 2)); ctx.obs(s.payloadId); ctx.obs(s.intact); }
		if(ctx.failed) return;
		std::string got = "[";
		for(auto & s : seen) got += fmt("L%d(key %d payload %d%s) ", s.listener, s.keyIndex, s.payloadId, s.intact ? "" : " DAMAGED");
		got += "]";
		std::string want = "["; for(int l : order[ki]) want += fmt("L%d ", l); want += "]";
		bool ok = seen.size() == order[ki].size();
		const char * clause = "wrong-listeners";
		for(size_t i = 0; ok && i < seen.size(); ++i) {
			if(seen[i].listener != order[ki][i]) ok = false;
			else if(seen[i].payloadId != pid || !seen[i].intact) { ok = false; clause = "argument-not-intact"; }
			else if(seen[i].keyIndex != shownKey) { ok = false; clause = "argument-not-intact"; }
		}
		if(!ok) {
			if(seen.empty() && !order[ki].empty()) clause = "listeners-not-reached";
			ctx.fail(clause, fmt("%s for key %d passed as %s reached %s; expected listeners %s each with key %d and payload %d intact", form, ki, catName(cat), got.c_str(), want.c_str(), shownKey, pid));
		}
	}

	static const bool canInclude = Mode::canIncludeEventType, canExclude = Mode::canExcludeEventType && !CustomGetEvent;
	int nForms() const { return (canInclude ? 1 : 0) + (canExclude ? 1 : 0); }
	int menu() const { return 3 + 3 + 3 + 3 * NCAT * nForms(); }
	void dispatchOp(int ki, int cat, int form) {
		bool excl = canInclude ? form == 1 : true;
		ctx.log(fmt("dispatch key %d, %s, %s form", ki, catName(cat), excl ? "exclude-event" : "include-event"));
		if(excl) callForm<true>(ki, cat, std::integral_constant<bool, canExclude>());
		else callForm<false>(ki, cat, std::integral_constant<bool, canInclude>());
	}
	template <bool Excl> void callForm(int ki, int cat, std::true_type) { doDispatchForm<Excl>(ki, cat, std::integral_constant<bool, CustomGetEvent>()); }
	template <bool Excl> void callForm(int, int, std::false_type) {}

	void topOp(Bfs & b, int op) {
		if(op < 3) { if(liveL() >= 3) b.skip(); add(op, false); return; } op -= 3;
		if(op < 3) { if(liveL() >= 3) b.skip(); add(op, true); return; } op -= 3;
		if(op < 3) { if(slot[op] < 0) b.skip(); remove(slot[op]); return; } op -= 3;
		int form = op / (3 * NCAT); op %= 3 * NCAT;
		dispatchOp(op / NCAT, op % NCAT, form);
	}
	std::string key() {
		std::string k;
		for(int i = 0; i < 3; ++i) k += fmt("%zu,", order[i].size());
		for(int i = 0; i < 3; ++i) {
			if(slot[i] < 0) k += "e,"; else if(!aliveL[slot[i]]) k += "d,";
			else { auto & o = order[keyOf[slot[i]]]; k += fmt("%d.%d,", keyOf[slot[i]], (int)(std::find(o.begin(), o.end(), slot[i]) - o.begin())); }
		}
		// parity of the next listener id decides by-value / by-reference
		k += fmt("a%d.%d.p%d", adds % 3, (int)(handleOf.size() % 2), CustomGetEvent ? nextPayload % 3 : 0);
		// what the implementation enumerates per key, relative to the model's order: a state holding the right listeners in
		// another order (or under another key) must not be merged with the ordinary state; one token on a correct tree
		for(int ki = 0; ki < 3; ++ki) {
			std::string ord; bool same = true; size_t pos = 0;
			d->forEach(KeyOps<K>::make(ki), [&](const Handle & h, const typename D::Callback &) {
				int id = -1; for(size_t i = 0; i < handleOf.size(); ++i) if(handleOf[i].lock() == h.lock()) id = (int)i;
				if(pos >= order[ki].size() || order[ki][pos] != id) same = false;
				ord += fmt("%d,", id); ++pos;
			});
			if(pos != order[ki].size()) same = false;
			k += same ? std::string("|=") : "|E:" + ord;
		}
		return k;
	}
	void body(Bfs & b) {
		ledger().reset();
		for(auto & o : order) o.clear();
		handleOf.clear(); keyOf.clear(); aliveL.clear();
		for(int i = 0; i < 3; ++i) slot[i] = -1;
		adds = 0; nextPayload = 1;
		D disp; d = &disp;
		struct Clear { Cell * h; ~Clear() { h->handleOf.clear(); } } clr{this};
		b.stepEnd(key());
		for(;;) {
			int op = b.chooseOp(menu()); topOp(b, op);
			checkLedgerErrors(ctx, "quiescent");
			if(!ctx.failed && ledger().liveTotal(TC_PAYLOAD, true) != 0) ctx.fail("ledger-payload-alive", "payload copies still alive after dispatch returned: " + ledger().describeLive());
			b.stepEnd(key());
		}
	}
	void after() { checkLedgerErrors(ctx, "after destruction"); if(ledger().liveAll() != 0 && !ctx.failed) ctx.fail("ledger-leak-after-destruction", ledger().describeLive()); }
};

template <typename C>
static void addCell(const std::string & name, int dq, int dt) {
	Unit u; u.name = name; u.minTier = 0;
	u.run = [=](Ctx & ctx, UnitReport & rep, int tier) {
		C c(ctx);
		BfsOptions o; o.keyIncludesLastOp = true; o.maxDepth = tier ? dt : dq;
		Bfs b(ctx, o);
		b.run([&](Bfs & bb) { c.body(bb); }, [&]() { c.after(); });
		fillBfsReport(rep, b.res);
		rep.str["config"] = name;
	};
	u.replay = [=](Ctx & ctx, const std::vector<int> & seq) { C c(ctx); replayBody(ctx, seq, [&](Bfs & bb) { c.body(bb); }, [&]() { c.after(); }); };
	units().push_back(u);
}

// The cells whose getEvent policy returns a REFERENCE can be built as a translation unit of their own (-DVERIF_ONLY_REFCELLS,
// the other cells with -DVERIF_NO_REFCELLS): a tree on which that policy shape no longer compiles then costs only that part
// of the check, not every cell of the matrix.
#if defined(VERIF_ONLY_REFCELLS)
#define PLAINCELL(...)
#define REFCELL(...) __VA_ARGS__
#elif defined(VERIF_NO_REFCELLS)
#define PLAINCELL(...) __VA_ARGS__
#define REFCELL(...)
#else
#define PLAINCELL(...) __VA_ARGS__
#define REFCELL(...) __VA_ARGS__
#endif

template <typename K, bool Hashed>
static void addQueueFamily(bool full) {
	using namespace eventpp;
	std::string kn = std::string("C05/keys/") + KeyOps<K>::name();
	const int dq = 3, dt = 5;
	PLAINCELL(addCell<Cell<K, K, Tracked, Pol<ArgumentPassingAutoDetect, false, Hashed>, false, true> >(kn + "/key-by-value/payload-by-value/auto/default-map", dq, dt);)
	PLAINCELL(addCell<Cell<K, const K &, const Tracked &, Pol<ArgumentPassingIncludeEvent, true, Hashed>, false, true> >(kn + "/key-const-ref/payload-const-ref/include/user-map", dq, dt);)
	PLAINCELL(addCell<Cell<K, K, Tracked, PolGetEvent<K, false, Hashed>, true, true> >(kn + "/getEvent-policy/payload-by-value/default-map", dq, dt);)
	REFCELL(addCell<Cell<K, K, Tracked, PolGetEventRef<K, false, Hashed>, false, true> >(kn + "/getEvent-returning-reference/key-by-value/payload-by-value/default-map", dq, dt);)
	PLAINCELL(addCell<Cell<K, K, const Tracked &, PolGetEventRotExcl<K, false, Hashed>, false, true> >(kn + "/getEvent-mapping/exclude/key-by-value/payload-const-ref/default-map", dq, dt);)
	if(!full) return;
	PLAINCELL(addCell<Cell<K, const K &, Tracked, PolGetEventRot<K, ArgumentPassingAutoDetect, true, Hashed>, false, true> >(kn + "/getEvent-mapping/auto/key-const-ref/payload-by-value/user-map", dq, dt);)
	REFCELL(addCell<Cell<K, K, Tracked, PolGetEventRotRef<K, ArgumentPassingAutoDetect, false, Hashed>, false, true> >(kn + "/getEvent-mapping-returning-reference/auto/key-by-value/payload-by-value/default-map", dq, dt);)
	PLAINCELL(addCell<Cell<K, K, const Tracked &, Pol<ArgumentPassingExcludeEvent, false, Hashed>, false, true> >(kn + "/key-by-value/payload-const-ref/exclude/default-map", dq, dt);)
	PLAINCELL(addCell<Cell<K, const K &, Tracked, Pol<ArgumentPassingAutoDetect, true, Hashed>, false, true> >(kn + "/key-const-ref/payload-by-value/auto/user-map", dq, dt);)
	PLAINCELL(addCell<Cell<K, K, const Tracked &, PolGetEvent<K, true, Hashed>, true, true> >(kn + "/getEvent-policy/payload-const-ref/user-map", dq, dt);)
}

template <typename K, bool Hashed>
static void addKeyFamily(bool full) {
	using namespace eventpp;
	std::string kn = std::string("C04/") + KeyOps<K>::name();
	const int dq = 3, dt = 5;
	// key by value
	PLAINCELL(addCell<Cell<K, K, Tracked, Pol<ArgumentPassingAutoDetect, false, Hashed>, false> >(kn + "/key-by-value/payload-by-value/auto/default-map", dq, dt);)
	PLAINCELL(addCell<Cell<K, K, const Tracked &, Pol<ArgumentPassingIncludeEvent, false, Hashed>, false> >(kn + "/key-by-value/payload-const-ref/include/default-map", dq, dt);)
	PLAINCELL(addCell<Cell<K, const K &, Tracked, Pol<ArgumentPassingExcludeEvent, true, Hashed>, false> >(kn + "/key-const-ref/payload-by-value/exclude/user-map", dq, dt);)
	PLAINCELL(addCell<Cell<K, K, Tracked, PolGetEvent<K, false, Hashed>, true> >(kn + "/getEvent-policy/payload-by-value/default-map", dq, dt);)
	REFCELL(addCell<Cell<K, K, Tracked, PolGetEventRef<K, false, Hashed>, false> >(kn + "/getEvent-returning-reference/key-by-value/payload-by-value/default-map", dq, dt);)
	PLAINCELL(addCell<Cell<K, K, const Tracked &, PolGetEventRotExcl<K, false, Hashed>, false> >(kn + "/getEvent-mapping/exclude/key-by-value/payload-const-ref/default-map", dq, dt);)
	REFCELL(addCell<Cell<K, const K &, Tracked, PolGetEventRotRef<K, ArgumentPassingAutoDetect, true, Hashed>, false> >(kn + "/getEvent-mapping-returning-reference/auto/key-const-ref/payload-by-value/user-map", dq, dt);)
	if(!full) return;
	PLAINCELL(addCell<Cell<K, const K &, Tracked, PolGetEventRot<K, ArgumentPassingAutoDetect, true, Hashed>, false> >(kn + "/getEvent-mapping/auto/key-const-ref/payload-by-value/user-map", dq, dt);)
	PLAINCELL(addCell<Cell<K, K, Tracked &, PolGetEventRot<K, ArgumentPassingIncludeEvent, false, Hashed>, false> >(kn + "/getEvent-mapping/include/key-by-value/payload-mutable-ref/default-map", dq, dt);)
	REFCELL(addCell<Cell<K, K, const Tracked &, PolGetEventRotRef<K, ArgumentPassingExcludeEvent, false, Hashed>, false> >(kn + "/getEvent-mapping-returning-reference/exclude/key-by-value/payload-const-ref/default-map", dq, dt);)
	PLAINCELL(addCell<Cell<K, K, Tracked &, Pol<ArgumentPassingAutoDetect, true, Hashed>, false> >(kn + "/key-by-value/payload-mutable-ref/auto/user-map", dq, dt);)
	PLAINCELL(addCell<Cell<K, const K &, const Tracked &, Pol<ArgumentPassingAutoDetect, false, Hashed>, false> >(kn + "/key-const-ref/payload-const-ref/auto/default-map", dq, dt);)
	PLAINCELL(addCell<Cell<K, const K &, Tracked &, Pol<ArgumentPassingIncludeEvent, true, Hashed>, false> >(kn + "/key-const-ref/payload-mutable-ref/include/user-map", dq, dt);)
	PLAINCELL(addCell<Cell<K, K, const Tracked &, Pol<ArgumentPassingExcludeEvent, false, Hashed>, false> >(kn + "/key-by-value/payload-const-ref/exclude/default-map", dq, dt);)
	PLAINCELL(addCell<Cell<K, K, Tracked, Pol<ArgumentPassingIncludeEvent, true, Hashed>, false> >(kn + "/key-by-value/payload-by-value/include/user-map", dq, dt);)
	PLAINCELL(addCell<Cell<K, const K &, Tracked, Pol<ArgumentPassingAutoDetect, true, Hashed>, false> >(kn + "/key-const-ref/payload-by-value/auto/user-map", dq, dt);)
	PLAINCELL(addCell<Cell<K, K, Tracked &, Pol<ArgumentPassingExcludeEvent, false, Hashed>, false> >(kn + "/key-by-value/payload-mutable-ref/exclude/default-map", dq, dt);)
	PLAINCELL(addCell<Cell<K, K, const Tracked &, PolGetEvent<K, true, Hashed>, true> >(kn + "/getEvent-policy/payload-const-ref/user-map", dq, dt);)
	PLAINCELL(addCell<Cell<K, K, Tracked &, PolGetEvent<K, false, Hashed>, true> >(kn + "/getEvent-policy/payload-mutable-ref/default-map", dq, dt);)
}

#ifndef VERIF_SUB
#define VERIF_SUB -1
#endif
#ifndef VERIF_FULL
#define VERIF_FULL 0
#endif
#define SEL(s) (VERIF_SUB < 0 || VERIF_SUB == (s))
static struct Register {
	Register() {
#ifdef VERIF_QUEUE
#define FAMILY addQueueFamily
#else
#define FAMILY addKeyFamily
#endif
#if SEL(0)
		FAMILY<int, true>(VERIF_FULL);
#endif
#if SEL(1)
		FAMILY<EK, true>(VERIF_FULL);
#endif
#if SEL(2)
		FAMILY<std::string, true>(VERIF_FULL);
#endif
#if SEL(3)
		FAMILY<OrdKey, false>(VERIF_FULL);
#endif
#if SEL(4)
		FAMILY<HashKey, true>(VERIF_FULL);
#endif
	}
} reg;

VERIF_MAIN("dispatch")
