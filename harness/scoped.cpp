// Engine H harness for C15: no listener added through a ScopedRemover outlives its remover.
// Pool of 2 targets and 3 remover slots; after every operation every target is triggered and the
// listeners that run are compared with the model.
#define VERIF_DEFINE_HOOKS
#include "../fw/core.h"
#include "../fw/ledger.h"
#include "../fw/sched.h"
#include <eventpp/callbacklist.h>
#include <eventpp/eventdispatcher.h>
#include <eventpp/eventqueue.h>
#include <eventpp/utilities/scopedremover.h>
#include <memory>

using namespace verif;

static std::vector<int> * g_seen = nullptr;
struct Fn : TrackedBase<TC_CALLBACK> {
	explicit Fn(int id_ = 0) : TrackedBase<TC_CALLBACK>(id_) {}
	void operator()(int) const { if(alive() && g_seen) g_seen->push_back(id); }
};

template <typename Th> struct P { using Threading = Th; };

template <typename Th>
struct TList {
	typedef eventpp::CallbackList<void(int), P<Th> > T;
	typedef eventpp::ScopedRemover<T> R;
	typedef typename T::Handle Handle;
	static const char * name() { return "CallbackList"; }
	static Handle addDirect(T & t, int id) { return t.append(Fn(id)); }
	static Handle rAppend(R & r, int id) { return r.append(Fn(id)); }
	static Handle rPrepend(R & r, int id) { return r.prepend(Fn(id)); }
	static Handle rInsert(R & r, int id, const Handle & before) { return r.insert(Fn(id), before); }
	static bool rRemove(R & r, const Handle & h) { return r.remove(h); }
	static bool removeDirect(T & t, const Handle & h) { return t.remove(h); }
	static void setTarget(R & r, T & t) { r.setCallbackList(t); }
	static void trigger(T & t) { t(1); }
#ifndef VERIF_NO_PRIVATE
	static const void * targetPtr(R & r) { return r.callbackList; }
	static size_t items(R & r) { return r.itemList.size(); }
#endif
};
template <typename Th>
struct TDisp {
	typedef eventpp::EventDispatcher<int, void(int), P<Th> > T;
	typedef eventpp::ScopedRemover<T> R;
	typedef typename T::Handle Handle;
	static const char * name() { return "EventDispatcher"; }
	static Handle addDirect(T & t, int id) { return t.appendListener(3, Fn(id)); }
	static Handle rAppend(R & r, int id) { return r.appendListener(3, Fn(id)); }
	static Handle rPrepend(R & r, int id) { return r.prependListener(3, Fn(id)); }
	static Handle rInsert(R & r, int id, const Handle & before) { return r.insertListener(3, Fn(id), before); }
	static bool rRemove(R & r, const Handle & h) { return r.removeListener(3, h); }
	static bool removeDirect(T & t, const Handle & h) { return t.removeListener(3, h); }
	static void setTarget(R & r, T & t) { r.setDispatcher(t); }
	static void trigger(T & t) { t.dispatch(3, 1); }
#ifndef VERIF_NO_PRIVATE
	static const void * targetPtr(R & r) { return r.dispatcher; }
	static size_t items(R & r) { return r.itemList.size(); }
#endif
};
template <typename Th>
struct TQueue {
	typedef eventpp::EventQueue<int, void(int), P<Th> > T;
	typedef eventpp::ScopedRemover<T> R;
	typedef typename T::Handle Handle;
	static const char * name() { return "EventQueue"; }
	static Handle addDirect(T & t, int id) { return t.appendListener(3, Fn(id)); }
	static Handle rAppend(R & r, int id) { return r.appendListener(3, Fn(id)); }
	static Handle rPrepend(R & r, int id) { return r.prependListener(3, Fn(id)); }
	static Handle rInsert(R & r, int id, const Handle & before) { return r.insertListener(3, Fn(id), before); }
	static bool rRemove(R & r, const Handle & h) { return r.removeListener(3, h); }
	static bool removeDirect(T & t, const Handle & h) { return t.removeListener(3, h); }
	static void setTarget(R & r, T & t) { r.setDispatcher(t); }
	static void trigger(T & t) { t.enqueue(3, 1); t.process(); }
#ifndef VERIF_NO_PRIVATE
	static const void * targetPtr(R & r) { return r.dispatcher; }
	static size_t items(R & r) { return r.itemList.size(); }
#endif
};

struct Cfg { int K = 3; };

template <typename A>
struct Harness {
	typedef typename A::T T; typedef typename A::R R; typedef typename A::Handle Handle;
	Cfg cfg; Ctx & ctx;
	T * target[2];
	std::unique_ptr<R> rem[3];
	// model
	std::vector<int> attached[2];                 // listener ids in order, per target
	struct MR { bool alive; int target; std::set<int> owned; bool movedFrom; };
	MR mr[3];
	struct Limbo { std::set<int> ids; std::set<int> removers; int target; };
	std::vector<Limbo> limbo;                     // what a move-assignment destination was responsible for before
	std::vector<Handle> handleOf; std::vector<int> targetOf; std::vector<char> viaRemover;
	int nextId = 0;

	Harness(Ctx & c, const Cfg & cf) : cfg(cf), ctx(c) {}
	static std::string vec(const std::vector<int> & v) { std::string s = "["; for(int x : v) s += fmt("%d ", x); return s + "]"; }
	bool inLimbo(int id) const { for(auto & l : limbo) if(l.ids.count(id)) return true; return false; }
	int total() const { return (int)(attached[0].size() + attached[1].size()); }

	int newId(int t, bool via) { int id = nextId++; handleOf.push_back(Handle()); targetOf.push_back(t); viaRemover.push_back(via); return id; }

	void verify(const char * when) {
		for(int t = 0; t < 2 && !ctx.failed; ++t) {
			std::vector<int> seen; g_seen = &seen;
			A::trigger(*target[t]);
			g_seen = nullptr;
			for(int x : seen) ctx.obs(700 + x);
			// ids in limbo may or may not still be attached; everything else must match exactly, in order
			std::vector<int> s2, m2;
			for(int x : seen) if(!inLimbo(x)) s2.push_back(x);
			for(int x : attached[t]) if(!inLimbo(x)) m2.push_back(x);
			if(s2 != m2) {
				std::string clause = "listeners-differ";
				for(int x : s2) if(std::find(m2.begin(), m2.end(), x) == m2.end()) clause = viaRemover[x] ? "remover-listener-still-attached" : "listeners-differ";
				for(int x : m2) if(std::find(s2.begin(), s2.end(), x) == s2.end()) clause = viaRemover[x] ? "remover-listener-detached-early" : "direct-listener-lost";
				ctx.fail(clause, fmt("%s: target %d runs %s, the model expects %s", when, t, vec(seen).c_str(), vec(attached[t]).c_str()));
				return;
			}
			for(int x : seen) if(inLimbo(x) && std::find(attached[t].begin(), attached[t].end(), x) == attached[t].end()) { ctx.fail("listeners-differ", fmt("%s: target %d runs listener %d which the model does not place there", when, t, x)); return; }
			// limbo ids that no longer run have been detached: forget them
			for(auto & l : limbo) if(l.target == t) {
				for(auto it = l.ids.begin(); it != l.ids.end(); ) {
					if(std::find(seen.begin(), seen.end(), *it) == seen.end()) { attached[t].erase(std::remove(attached[t].begin(), attached[t].end(), *it), attached[t].end()); it = l.ids.erase(it); }
					else ++it;
				}
			}
		}
		for(size_t i = 0; i < limbo.size(); ) {
			if(limbo[i].ids.empty()) { limbo.erase(limbo.begin() + i); continue; }
			if(limbo[i].removers.empty()) {
				ctx.fail("orphaned-after-move-assignment", fmt("%s: listener %d, which a move-assignment destination was responsible for, is still attached to target %d although every remover involved is gone", when, *limbo[i].ids.begin(), limbo[i].target));
				return;
			}
			++i;
		}
	}

	void detachOwned(int i) {
		MR & m = mr[i];
		if(m.target >= 0) for(int id : m.owned) attached[m.target].erase(std::remove(attached[m.target].begin(), attached[m.target].end(), id), attached[m.target].end());
		m.owned.clear();
	}
	void removerGone(int i) { for(auto & l : limbo) l.removers.erase(i); }

	// ---- operations
	void opConstruct(int i, int t) { ctx.log(fmt("R%d = ScopedRemover(target %d)", i, t)); rem[i].reset(new R(*target[t])); mr[i] = MR{true, t, {}, false}; }
	void opDefault(int i) { ctx.log(fmt("R%d = ScopedRemover()", i)); rem[i].reset(new R()); mr[i] = MR{true, -1, {}, false}; }
	void opDestroy(int i) { ctx.log(fmt("destroy R%d", i)); rem[i].reset(); detachOwned(i); mr[i].alive = false; removerGone(i); }
	void opReset(int i) { ctx.log(fmt("R%d.reset()", i)); rem[i]->reset(); detachOwned(i); }
	void opSetTarget(int i, int t) { ctx.log(fmt("R%d.setTarget(target %d)", i, t)); A::setTarget(*rem[i], *target[t]); if(mr[i].target != t) { detachOwned(i); mr[i].target = t; } mr[i].movedFrom = false; }
	void opAddVia(int i, int how) {
		int t = mr[i].target; int id = newId(t, true);
		Handle h;
		if(how == 0) { ctx.log(fmt("R%d.append -> #%d", i, id)); h = A::rAppend(*rem[i], id); attached[t].push_back(id); }
		else if(how == 1) { ctx.log(fmt("R%d.prepend -> #%d", i, id)); h = A::rPrepend(*rem[i], id); attached[t].insert(attached[t].begin(), id); }
		else {
			// before the first attached listener of the target that is not in limbo (or an empty handle)
			int before = -1; for(int x : attached[t]) if(!inLimbo(x)) { before = x; break; }
			ctx.log(fmt("R%d.insert(before #%d) -> #%d", i, before, id));
			h = A::rInsert(*rem[i], id, before >= 0 ? handleOf[before] : Handle());
			if(before >= 0) attached[t].insert(std::find(attached[t].begin(), attached[t].end(), before), id); else attached[t].push_back(id);
		}
		handleOf[id] = h; mr[i].owned.insert(id);
	}
	void opAddDirect(int t) { int id = newId(t, false); ctx.log(fmt("target %d: direct append -> #%d", t, id)); handleOf[id] = A::addDirect(*target[t], id); attached[t].push_back(id); }
	// removal straight on the target, behind the removers' backs (the record a remover keeps for that listener expires)
	void opRemoveDirect(int t, int id) {
		bool got = A::removeDirect(*target[t], handleOf[id]);
		ctx.log(fmt("target %d: direct remove(#%d%s) -> %d", t, id, viaRemover[id] ? ", added through a remover" : "", (int)got));
		attached[t].erase(std::remove(attached[t].begin(), attached[t].end(), id), attached[t].end());
		for(int i = 0; i < 3; ++i) mr[i].owned.erase(id);
		if(!got) ctx.fail("direct-remove-result", fmt("removing the attached listener #%d directly from target %d returned false", id, t));
	}
	void opRemoveVia(int i, int id, const char * what) {
		bool expect = mr[i].owned.count(id) && std::find(attached[mr[i].target].begin(), attached[mr[i].target].end(), id) != attached[mr[i].target].end();
		bool got = A::rRemove(*rem[i], handleOf[id]);
		ctx.log(fmt("R%d.remove(#%d %s) -> %d", i, id, what, (int)got)); ctx.tagStep(got ? "+r1" : "+r0");
		ctx.obs(got);
		if(expect) { attached[mr[i].target].erase(std::remove(attached[mr[i].target].begin(), attached[mr[i].target].end(), id), attached[mr[i].target].end()); mr[i].owned.erase(id); }
		if(got != expect) ctx.fail("remove-via-remover-result", fmt("remove of #%d (%s) through R%d returned %d, expected %d", id, what, i, (int)got, (int)expect));
	}
	void opMoveCtor(int i, int j) { ctx.log(fmt("R%d = move-construct(R%d)", i, j)); rem[i].reset(new R(std::move(*rem[j]))); mr[i] = MR{true, mr[j].target, mr[j].owned, false}; mr[j].owned.clear(); mr[j].movedFrom = true; for(auto & l : limbo) if(l.removers.count(j)) l.removers.insert(i); }
	void opMoveAssign(int i, int j) {
		ctx.log(fmt("R%d = move(R%d)", i, j));
		*rem[i] = std::move(*rem[j]);
		if(!mr[i].owned.empty() && mr[i].target >= 0) { Limbo l; l.ids = mr[i].owned; l.removers.insert(i); l.removers.insert(j); l.target = mr[i].target; limbo.push_back(l); }
		for(auto & l : limbo) if(l.removers.count(j) || l.removers.count(i)) { l.removers.insert(i); l.removers.insert(j); }
		mr[i].target = mr[j].target; mr[i].owned = mr[j].owned; mr[i].movedFrom = false;
		mr[j].owned.clear(); mr[j].movedFrom = true;
	}
	void opSwap(int i, int j) { ctx.log(fmt("R%d.swap(R%d)", i, j)); rem[i]->swap(*rem[j]); std::swap(mr[i].target, mr[j].target); std::swap(mr[i].owned, mr[j].owned); std::swap(mr[i].movedFrom, mr[j].movedFrom); for(auto & l : limbo) { bool a = l.removers.count(i), b = l.removers.count(j); if(a != b) { l.removers.insert(i); l.removers.insert(j); } } }
	void opDestroyAll() { ctx.log("destroy all removers"); for(int i = 0; i < 3; ++i) if(mr[i].alive) { rem[i].reset(); detachOwned(i); mr[i].alive = false; removerGone(i); } }

	bool usable(int i) const { return mr[i].alive && mr[i].target >= 0 && !mr[i].movedFrom; }
	int menu() const { return 6 + 3 + 3 + 3 + 6 + 9 + 2 + 9 + 9 + 9 + 3 + 4 + 1; }
	void topOp(Bfs & b, int op) {
		if(op < 6) { int i = op / 2, t = op % 2; if(mr[i].alive) b.skip(); opConstruct(i, t); return; } op -= 6;
		if(op < 3) { if(mr[op].alive) b.skip(); opDefault(op); return; } op -= 3;
		if(op < 3) { if(!mr[op].alive) b.skip(); opDestroy(op); return; } op -= 3;
		if(op < 3) { if(!mr[op].alive) b.skip(); opReset(op); return; } op -= 3;
		if(op < 6) { int i = op / 2, t = op % 2; if(!mr[i].alive) b.skip(); opSetTarget(i, t); return; } op -= 6;
		if(op < 9) { int i = op / 3; if(!usable(i) || total() >= cfg.K) b.skip(); opAddVia(i, op % 3); return; } op -= 9;
		if(op < 2) { if(total() >= cfg.K) b.skip(); opAddDirect(op); return; } op -= 2;
		if(op < 9) {
			int i = op / 3, which = op % 3;
			if(!usable(i)) b.skip();
			int id = -1; const char * what = "";
			if(which == 0) { what = "owned"; for(int x : mr[i].owned) { id = x; break; } }
			else if(which == 1) { what = "not owned"; for(int x : attached[mr[i].target]) if(!mr[i].owned.count(x) && !inLimbo(x)) { id = x; break; } }
			else { what = "stale"; for(int x = 0; x < nextId; ++x) if(targetOf[x] == mr[i].target && std::find(attached[mr[i].target].begin(), attached[mr[i].target].end(), x) == attached[mr[i].target].end()) { id = x; break; } }
			if(id < 0) b.skip();
			opRemoveVia(i, id, what);
			return;
		} op -= 9;
		if(op < 9) { int i = op / 3, j = op % 3; if(mr[i].alive || !mr[j].alive || i == j) b.skip(); opMoveCtor(i, j); return; } op -= 9;
		if(op < 9) { int i = op / 3, j = op % 3; if(!mr[i].alive || !mr[j].alive || i == j) b.skip(); opMoveAssign(i, j); return; } op -= 9;
		if(op < 3) { int i = op == 2 ? 1 : 0, j = op == 0 ? 1 : 2; if(!mr[i].alive || !mr[j].alive) b.skip(); opSwap(i, j); return; } op -= 3;
		if(op < 4) {
			int t = op / 2; bool via = op % 2 == 0; int id = -1;
			for(int x : attached[t]) if((bool)viaRemover[x] == via && !inLimbo(x)) { id = x; break; }
			if(id < 0) b.skip();
			opRemoveDirect(t, id);
			return;
		} op -= 4;
		bool any = false; for(int i = 0; i < 3; ++i) any = any || mr[i].alive;
		if(!any) b.skip();
		opDestroyAll();
	}

	std::string key() {
		std::map<int, int> ren; std::string k;
		auto rn = [&](int id) { auto it = ren.find(id); if(it == ren.end()) it = ren.insert(std::make_pair(id, (int)ren.size())).first; return it->second; };
		for(int t = 0; t < 2; ++t) { k += "T:"; for(int id : attached[t]) k += fmt("%d%s%s,", rn(id), viaRemover[id] ? "r" : "d", inLimbo(id) ? "L" : ""); k += "|"; }
		for(int i = 0; i < 3; ++i) {
			if(!mr[i].alive) { k += "-|"; continue; }
			k += fmt("R%d%s:", mr[i].target, mr[i].movedFrom ? "m" : "");
			for(int id : mr[i].owned) k += fmt("%d,", rn(id));
#ifndef VERIF_NO_PRIVATE
			// implementation snapshot: which target the remover really points at, how many items it really records
			{ const void * tp = A::targetPtr(*rem[i]); k += fmt(";i%d.%zu", tp == (const void *)target[0] ? 0 : tp == (const void *)target[1] ? 1 : -1, A::items(*rem[i])); }
#endif
			k += "|";
		}
		for(auto & l : limbo) { k += "L:"; for(int r : l.removers) k += fmt("%d,", r); k += ";"; }
		// stale handles per target (whether one exists matters for the 'stale' removal operation)
		for(int t = 0; t < 2; ++t) { bool st = false; for(int x = 0; x < nextId; ++x) if(targetOf[x] == t && std::find(attached[t].begin(), attached[t].end(), x) == attached[t].end()) st = true; k += st ? "s" : "n"; }
		return k;
	}

	void body(Bfs & b) {
		ledger().reset();
		T t0, t1; target[0] = &t0; target[1] = &t1;
		attached[0].clear(); attached[1].clear(); limbo.clear(); handleOf.clear(); targetOf.clear(); viaRemover.clear(); nextId = 0;
		for(int i = 0; i < 3; ++i) { rem[i].reset(); mr[i] = MR{false, -1, {}, false}; }
		struct Cleanup { Harness * h; ~Cleanup() { for(int i = 0; i < 3; ++i) h->rem[i].reset(); h->handleOf.clear(); } } cl{this};
		b.stepEnd(key());
		for(;;) {
			int op = b.chooseOp(menu());
			topOp(b, op);
			verify("after the operation");
			checkLedgerErrors(ctx, "quiescent");
			if(!ctx.failed) {
				int want = total(), have = ledger().liveTotal(TC_CALLBACK, false);
				if(have != want) ctx.fail("ledger-callback-count", fmt("%d callback objects alive, %d listeners attached in the model", have, want));
			}
			b.stepEnd(key());
		}
	}
	void after() {
		checkLedgerErrors(ctx, "after destruction");
		if(ledger().liveAll() != 0 && !ctx.failed) ctx.fail("ledger-leak-after-destruction", "objects alive after targets and removers were destroyed: " + ledger().describeLive());
	}
};

template <typename A>
static void addUnit(const std::string & name, int minTier, Cfg cfg, int dq, int dt) {
	Unit u; u.name = name; u.minTier = minTier;
	u.run = [=](Ctx & ctx, UnitReport & rep, int tier) {
		Harness<A> h(ctx, cfg);
		BfsOptions o; o.keyIncludesLastOp = true; o.maxDepth = tier ? dt : dq; o.innerBudget = 0;
		Bfs b(ctx, o);
		b.run([&](Bfs & bb) { h.body(bb); }, [&]() { h.after(); });
		fillBfsReport(rep, b.res);
		rep.str["config"] = fmt("ScopedRemover<%s> 2 targets, 3 remover slots, K=%d listeners, depth %d", A::name(), cfg.K, o.maxDepth);
	};
	u.replay = [=](Ctx & ctx, const std::vector<int> & seq) {
		Harness<A> h(ctx, cfg);
		replayBody(ctx, seq, [&](Bfs & bb) { h.body(bb); }, [&]() { h.after(); });
	};
	units().push_back(u);
}

#ifndef VERIF_SUB
#define VERIF_SUB -1
#endif
#define SEL(s) (VERIF_SUB < 0 || VERIF_SUB == (s))
using ST = eventpp::SingleThreading;
using MT = eventpp::MultipleThreading;
static struct Register {
	Register() {
		Cfg c;
#if SEL(0)
		addUnit<TList<MT> >("C15/CallbackList/multi", 0, c, 5, 8);
		addUnit<TList<VThreading> >("C15/CallbackList/vmutex", 0, c, 4, 8);
#endif
#if SEL(1)
		addUnit<TDisp<MT> >("C15/EventDispatcher/multi", 0, c, 5, 8);
		addUnit<TDisp<ST> >("C15/EventDispatcher/single", 1, c, 5, 8);
#endif
#if SEL(2)
		addUnit<TQueue<MT> >("C15/EventQueue/multi", 0, c, 5, 8);
		// SpinLock as the mutex of target and remover (the remover embeds one for its item list)
		addUnit<TQueue<eventpp::GeneralThreading<eventpp::SpinLock, std::atomic, std::condition_variable_any> > >("C15/EventQueue/spinlock", 0, c, 4, 7);
#endif
	}
} reg;

VERIF_MAIN("scoped")
