// Engine S harness for EventQueue under the controlled scheduler:
//   C06  producers/consumers never lose or duplicate an event
//   C07  wait/waitFor never miss a wake-up; DisableQueueNotify only defers it
//   C11  a queue is never reported empty while an event is pending or in dispatch
// Real std::threads run the real EventQueue template with the injected
// Threading (VMutex/VAtomic/VCondVar) and QueueList (VList) policies; every
// synchronisation operation and every unlocked emptiness check is a scheduling point.
#define VERIF_DEFINE_HOOKS
#include "../fw/core.h"
#include "../fw/ledger.h"
#include "../fw/sched.h"
#include <eventpp/eventqueue.h>
#include <eventpp/hetereventqueue.h>

using namespace verif;

struct QPol {
	using Threading = VThreading;
	template <typename T> using QueueList = VList<T>;
};
using Q = eventpp::EventQueue<int, void(const Tracked &), QPol>;
struct QPolH { using Threading = VThreading; };
using HQ = eventpp::HeterEventQueue<int, eventpp::HeterTuple<void(const Tracked &), void(int)>, QPolH>;

// The harness drives either queue through this small interface (virtual calls add no behaviour).
struct QIface {
	virtual ~QIface() {}
	virtual void share() = 0;
	virtual void addListener(const std::function<void(const Tracked &)> & f) = 0;
	virtual void enqueue(int id) = 0;
	virtual bool process() = 0;
	virtual bool processOne() = 0;
	virtual bool processIfOdd() = 0;
	virtual bool processUntilEven() = 0;
	virtual void clearEvents() = 0;
	virtual int takeOrPeek(bool peek, bool & found) = 0;      // payload id, or -1 when damaged
	virtual void wait() = 0;
	virtual bool waitFor(int ms) = 0;
	virtual bool emptyQueue() = 0;
	virtual unsigned queuedMask() = 0;    // which events sit in the pending list right now (private access, no scheduling point)
	virtual std::shared_ptr<void> disableNotify() = 0;
};
struct HomoImpl : QIface {
	Q q;
	void share() override { sched().addSharedRange(&q, sizeof q); }
	void addListener(const std::function<void(const Tracked &)> & f) override { q.appendListener(1, f); }
	void enqueue(int id) override { q.enqueue(1, Tracked(id)); }
	bool process() override { return q.process(); }
	bool processOne() override { return q.processOne(); }
	bool processIfOdd() override { return q.processIf([](const Tracked & t) { return t.id % 2 == 1; }); }
	bool processUntilEven() override { return q.processUntil([](const Tracked & t) { return t.id % 2 == 0; }); }
	void clearEvents() override { q.clearEvents(); }
	int takeOrPeek(bool peek, bool & found) override { Q::QueuedEvent qe; found = peek ? q.peekEvent(&qe) : q.takeEvent(&qe); if(!found) return 0; const Tracked & t = std::get<0>(qe.arguments); return t.intact() ? t.id : -1; }
	void wait() override { q.wait(); }
	bool waitFor(int ms) override { return q.waitFor(std::chrono::milliseconds(ms)); }
	bool emptyQueue() override { return q.emptyQueue(); }
	unsigned queuedMask() override { HarnessScope hs; unsigned m = 0; for(auto & x : q.queueList.l) if(!x.empty()) { int id = std::get<0>(x.get().arguments).id; if(id >= 1 && id < 32) m |= 1u << id; } return m; }
	std::shared_ptr<void> disableNotify() override { return std::shared_ptr<void>(new Q::DisableQueueNotify(&q), [](void * p) { delete static_cast<Q::DisableQueueNotify *>(p); }); }
};
struct HeterImpl : QIface {
	HQ q;
	void share() override { sched().addSharedRange(&q, sizeof q); }
	void addListener(const std::function<void(const Tracked &)> & f) override { q.appendListener(1, f); }
	void enqueue(int id) override { q.enqueue(1, Tracked(id)); }
	bool process() override { return q.process(); }
	bool processOne() override { return q.processOne(); }
	bool processIfOdd() override { return q.processIf([](const Tracked & t) { return t.id % 2 == 1; }); }
	bool processUntilEven() override { return false; }
	void clearEvents() override { q.clearEvents(); }
	int takeOrPeek(bool, bool & found) override { found = false; return 0; }
	void wait() override { q.wait(); }
	bool waitFor(int ms) override { return q.waitFor(std::chrono::milliseconds(ms)); }
	bool emptyQueue() override { return q.emptyQueue(); }
	unsigned queuedMask() override { HarnessScope hs; unsigned m = 0; for(auto & x : q.queueList) if(!x.empty() && x.get<HQ::QueuedItemBase>().callableIndex == 0) { int id = std::get<0>(x.get<HQ::QueuedItem<std::tuple<Tracked> > >().arguments).id; if(id >= 1 && id < 32) m |= 1u << id; } return m; }
	std::shared_ptr<void> disableNotify() override { return std::shared_ptr<void>(); }
};

enum OpKind { O_ENQ, O_DQN_ENQ, O_DQN2, O_PROCESS, O_PROCESS_ONE, O_PROCESS_IF_ODD, O_PROCESS_UNTIL_EVEN, O_TAKE, O_PEEK, O_CLEAR,
	O_WAIT_PROCESS, O_WAITFOR_PROCESS, O_EMPTY, O_WAITFOR0, O_WAIT_DRAIN, O_DQN_ONLY };
static const char * opName(OpKind k) {
	static const char * n[] = {"enqueue", "{DQN;enqueue}", "{DQN;{DQN;enqueue}enqueue}", "process", "processOne", "processIf(odd)", "processUntil(even)", "takeEvent", "peekEvent", "clearEvents",
		"wait;process", "waitFor;process", "emptyQueue", "waitFor(0)", "wait;drain", "{DQN}"};
	return n[k];
}
static int enqueuesOf(OpKind k) { return k == O_ENQ || k == O_DQN_ENQ ? 1 : (k == O_DQN2 ? 2 : 0); }

struct Config {
	std::vector<std::vector<OpKind> > threads;
	bool listenerObserves = false;
	std::string name() const {
		std::string s;
		for(size_t t = 0; t < threads.size(); ++t) {
			s += fmt("%sT%zu[", t ? " || " : "", t + 1);
			for(size_t i = 0; i < threads[t].size(); ++i) s += std::string(i ? "; " : "") + opName(threads[t][i]);
			s += "]";
		}
		if(listenerObserves) s += " +listener-observes-emptyQueue";
		return s;
	}
	bool has(OpKind k) const { for(auto & t : threads) for(auto o : t) if(o == k) return true; return false; }
};

struct Ev { int id; int producer; long enqStart, enqEnd; int dispatched, taken; long listenerEnd, takeStart, destroyedAt; int consumer; long consumedSeq; };
struct Call { int thread; OpKind kind; long start, end; int result; bool timedOut; unsigned queuedAtEnd; };   // queuedAtEnd: events in the pending list when an emptiness claim returned
struct DqnRec { long ctorStart, ctorDone, dtorStart, dtorEnd; };

struct Run {
	Ctx & ctx;
	const Config & cfg;
	QIface * q = nullptr;
	bool heter = false;
	int spurious = 0;          // spurious wake-ups allowed in this execution (a deviation each)
	std::vector<Ev> evs;          // index = id-1
	std::vector<Call> calls;
	std::vector<DqnRec> dqns;
	std::vector<std::vector<int> > idsOfThread;   // event ids assigned to each thread's enqueues, in program order
	long clk = 0;
	long tick() { return ++clk; }
	Run(Ctx & c, const Config & cf) : ctx(c), cfg(cf) {}

	int curThread() const { VThread * m = Sched::me(); return m ? m->id : 0; }

	void listener(const Tracked & t) {
		if(t.id < 1 || t.id > (int)evs.size()) { ctx.fail("payload-corrupt", fmt("listener received an event with unknown payload id %d", t.id)); return; }
		Ev & e = evs[t.id - 1];
		if(!t.intact()) ctx.fail("payload-corrupt", fmt("payload of event %d is not intact when dispatched", t.id));
		++e.dispatched;
		e.consumer = curThread(); e.consumedSeq = tick();
		if(ctx.wantLog()) ctx.log(fmt("T%d: listener gets event %d", curThread(), t.id));
		if(e.enqStart < 0) ctx.fail("event-from-nowhere", fmt("event %d dispatched before it was enqueued", t.id));
		if(cfg.listenerObserves) {
			bool em = q->emptyQueue();
			if(em) ctx.fail("empty-inside-listener", fmt("emptyQueue() returned true on thread %d from inside the listener handling event %d", curThread(), t.id));
		}
		e.listenerEnd = tick();
	}

	void doEnqueue(int id) {
		Ev & e = evs[id - 1];
		e.enqStart = tick();
		if(ctx.wantLog()) ctx.log(fmt("T%d: enqueue(%d)", curThread(), id));
		q->enqueue(id);
		e.enqEnd = tick();
	}
	struct DqnGuard {   // records the start of the DisableQueueNotify destructor (declared after it, so destroyed before it)
		Run * r; size_t i;
		~DqnGuard() { r->dqns[i].dtorStart = r->tick(); }
	};
	struct DqnEnd { Run * r; size_t i; ~DqnEnd() { r->dqns[i].dtorEnd = r->tick(); } };

	void op(int thread, OpKind k, int & nextEnq) {
		const std::vector<int> & ids = idsOfThread[thread];
		switch(k) {
		case O_ENQ: doEnqueue(ids[nextEnq++]); break;
		case O_DQN_ENQ: {
			size_t di = dqns.size(); dqns.push_back(DqnRec{tick(), -1, -1, -1});
			DqnEnd de{this, di};
			std::shared_ptr<void> d = q->disableNotify();
			dqns[di].ctorDone = tick();
			DqnGuard g{this, di};
			doEnqueue(ids[nextEnq++]);
			break;
		}
		case O_DQN_ONLY: {
			size_t di = dqns.size(); dqns.push_back(DqnRec{tick(), -1, -1, -1});
			DqnEnd de{this, di};
			std::shared_ptr<void> d = q->disableNotify();
			dqns[di].ctorDone = tick();
			DqnGuard g{this, di};
			if(ctx.wantLog()) ctx.log(fmt("T%d: DisableQueueNotify scope without enqueue", curThread()));
			break;
		}
		case O_DQN2: {
			size_t d1 = dqns.size(); dqns.push_back(DqnRec{tick(), -1, -1, -1});
			DqnEnd de1{this, d1};
			std::shared_ptr<void> a = q->disableNotify();
			dqns[d1].ctorDone = tick();
			DqnGuard g1{this, d1};
			{
				size_t d2 = dqns.size(); dqns.push_back(DqnRec{tick(), -1, -1, -1});
				DqnEnd de2{this, d2};
				std::shared_ptr<void> b = q->disableNotify();
				dqns[d2].ctorDone = tick();
				DqnGuard g2{this, d2};
				doEnqueue(ids[nextEnq++]);
			}
			doEnqueue(ids[nextEnq++]);
			break;
		}
		case O_PROCESS: case O_PROCESS_ONE: case O_PROCESS_IF_ODD: case O_PROCESS_UNTIL_EVEN: case O_CLEAR: {
			size_t ci = calls.size(); calls.push_back(Call{thread, k, tick(), -1, -1, false, 0u});
			bool r = false;
			if(k == O_PROCESS) r = q->process();
			else if(k == O_PROCESS_ONE) r = q->processOne();
			else if(k == O_PROCESS_IF_ODD) r = q->processIfOdd();
			else if(k == O_PROCESS_UNTIL_EVEN) r = q->processUntilEven();
			else q->clearEvents();
			calls[ci].result = r; calls[ci].end = tick();
			if(ctx.wantLog()) ctx.log(fmt("T%d: %s -> %d", thread, opName(k), (int)r));
			break;
		}
		case O_TAKE: case O_PEEK: {
			size_t ci = calls.size(); calls.push_back(Call{thread, k, tick(), -1, -1, false, 0u});
			bool r = false;
			int pid = q->takeOrPeek(k == O_PEEK, r);
			calls[ci].result = r; calls[ci].end = tick();
			if(r) {
				if(pid < 1 || pid > (int)evs.size()) ctx.fail("payload-corrupt", fmt("%s handed out a damaged event (payload id %d)", opName(k), pid));
				else {
					Ev & e = evs[pid - 1];
					if(e.enqStart < 0) ctx.fail("event-from-nowhere", fmt("%s handed out event %d before it was enqueued", opName(k), pid));
					if(k == O_TAKE) { ++e.taken; e.takeStart = calls[ci].start; e.consumer = thread; e.consumedSeq = calls[ci].end; }
				}
				if(ctx.wantLog()) ctx.log(fmt("T%d: %s -> event %d", thread, opName(k), pid));
			}
			else if(ctx.wantLog()) ctx.log(fmt("T%d: %s -> nothing", thread, opName(k)));
			break;
		}
		case O_WAIT_PROCESS: case O_WAIT_DRAIN: {
			size_t ci = calls.size(); calls.push_back(Call{thread, O_WAIT_PROCESS, tick(), -1, -1, false, 0u});
			if(ctx.wantLog()) ctx.log(fmt("T%d: wait() ...", thread));
			q->wait();
			calls[ci].end = tick(); calls[ci].result = 1;
			if(ctx.wantLog()) ctx.log(fmt("T%d: wait() returned", thread));
			if(k == O_WAIT_PROCESS) op(thread, O_PROCESS, nextEnq);
			else for(int i = 0; i < 3 && !q->emptyQueue(); ++i) op(thread, O_PROCESS, nextEnq);
			break;
		}
		case O_WAITFOR_PROCESS: case O_WAITFOR0: {
			size_t ci = calls.size(); calls.push_back(Call{thread, k, tick(), -1, -1, false, 0u});
			VThread * m = Sched::me();
			if(m) m->timedOut = false;
			bool r = (k == O_WAITFOR0) ? q->waitFor(0) : q->waitFor(10);
			calls[ci].end = tick(); calls[ci].result = r; calls[ci].timedOut = (k == O_WAITFOR0) || (m && m->timedOut);
			if(ctx.wantLog()) ctx.log(fmt("T%d: %s -> %d", thread, opName(k), (int)r));
			if(k == O_WAITFOR_PROCESS && r) op(thread, O_PROCESS, nextEnq);
			break;
		}
		case O_EMPTY: {
			size_t ci = calls.size(); calls.push_back(Call{thread, k, tick(), -1, -1, false, 0u});
			bool r = q->emptyQueue();
			calls[ci].queuedAtEnd = q->queuedMask();
			calls[ci].end = tick(); calls[ci].result = r;
			if(ctx.wantLog()) ctx.log(fmt("T%d: emptyQueue() -> %d", thread, (int)r));
			break;
		}
		}
	}

	void runThread(int thread) {
		int nextEnq = 0;
		for(OpKind k : cfg.threads[thread - 1]) op(thread, k, nextEnq);
	}

	// ---- oracles
	bool consumedAtAll(const Ev & e) const { return e.dispatched + e.taken > 0; }
	const Call * clearContaining(long t) const {
		for(auto & c : calls) if(c.kind == O_CLEAR && c.start <= t && (c.end < 0 || t <= c.end)) return &c;
		return nullptr;
	}
	// earliest moment at which the event can be said to be consumed (weak orientation for C11)
	long consumedEarly(const Ev & e) const {
		if(e.dispatched) return e.listenerEnd;
		if(e.taken) return e.takeStart;
		if(e.destroyedAt >= 0) { const Call * c = clearContaining(e.destroyedAt); return c ? c->start : -1; }
		return -1;
	}
	bool dqnDefinitelyAliveAt(long t) const {
		for(auto & d : dqns) if(d.ctorDone >= 0 && d.ctorDone <= t && (d.dtorStart < 0 || t <= d.dtorStart)) return true;
		return false;
	}
	bool dqnPossiblyAliveDuring(long s, long r) const {
		for(auto & d : dqns) if(d.ctorStart <= r && (d.dtorEnd < 0 || d.dtorEnd >= s)) return true;
		return false;
	}

	void evaluate(bool aborted) {
		Sched & s = sched();
		checkLedgerErrors(ctx, "end of execution");
		// --- exactly once
		for(auto & e : evs) {
			if(e.dispatched + e.taken > 1) ctx.fail("event-duplicated", fmt("event %d was consumed %d times (dispatched %d, taken %d)", e.id, e.dispatched + e.taken, e.dispatched, e.taken));
		}
		if(aborted) {
			if(s.deadlock.happened) {
				bool nonWaiter = false; int waiters = 0;
				for(size_t i = 0; i < s.deadlock.blockedIds.size(); ++i) {
					if(s.deadlock.blockedIds[i] == 0) continue;
					if(s.deadlock.blockedStates[i] == T_WAIT_CV) ++waiters; else nonWaiter = true;
				}
				int pending = 0; std::string pend;
				for(auto & e : evs) if(e.enqEnd >= 0 && !consumedAtAll(e) && e.destroyedAt < 0) { ++pending; pend += fmt(" %d", e.id); }
				int dqnAlive = 0;
				for(auto & d : dqns) if(d.dtorStart < 0) ++dqnAlive;
				if(nonWaiter) ctx.fail("deadlock", "threads are blocked for ever on a mutex or spin lock");
				else if(waiters > 0 && pending > 0 && dqnAlive == 0)
					ctx.fail("lost-wakeup", fmt("%d thread(s) blocked in wait() for ever while event(s)%s are pending, no DisableQueueNotify is alive and no other thread can run", waiters, pend.c_str()));
			}
		}
		else {
			// --- nothing lost: every event consumed, or destroyed inside a clearEvents call
			for(auto & e : evs) {
				if(e.enqEnd < 0) continue;
				if(consumedAtAll(e)) continue;
				if(e.destroyedAt >= 0 && clearContaining(e.destroyedAt)) continue;
				if(e.destroyedAt >= 0) ctx.fail("event-lost", fmt("event %d was destroyed undelivered outside any clearEvents call", e.id));
				else ctx.fail("event-lost", fmt("event %d was neither dispatched, taken nor cleared although the queue was drained after all threads finished", e.id));
			}
			// --- per producer/consumer order (only FIFO consumers in the configuration)
			if(!cfg.has(O_PROCESS_IF_ODD) && !cfg.has(O_PROCESS_UNTIL_EVEN)) {
				for(size_t i = 0; i < evs.size(); ++i) for(size_t j = 0; j < evs.size(); ++j) {
					const Ev & a = evs[i], & b = evs[j];
					if(a.producer == b.producer && a.consumer == b.consumer && a.consumer >= 0 && consumedAtAll(a) && consumedAtAll(b)
						&& a.enqEnd < b.enqStart && a.consumedSeq > b.consumedSeq)
						ctx.fail("order-violated", fmt("events %d and %d were enqueued in that order by thread %d but consumed in the opposite order by thread %d", a.id, b.id, a.producer, a.consumer));
				}
			}
		}
		// --- C11: emptyQueue()==true / waitFor timing out with no DQN around
		for(auto & c : calls) {
			if(c.end < 0) continue;
			bool claimsEmpty = (c.kind == O_EMPTY && c.result == 1)
				|| ((c.kind == O_WAITFOR0 || c.kind == O_WAITFOR_PROCESS) && c.result == 0 && !dqnPossiblyAliveDuring(c.start, c.end));
			if(!claimsEmpty) continue;
			for(auto & e : evs) {
				if(e.enqEnd < 0 || e.enqEnd >= c.start) continue;
				long ce = consumedEarly(e);
				// a declined event being put back by an overlapping processIf/processUntil call is reported under its own signature
				bool putBack = false;
				for(auto & pc : calls) if((pc.kind == O_PROCESS_IF_ODD || pc.kind == O_PROCESS_UNTIL_EVEN) && pc.start <= c.end && (pc.end < 0 || pc.end >= c.start) && e.enqStart < (pc.end < 0 ? ((long)1 << 40) : pc.end)
					&& !(e.dispatched && e.listenerEnd >= pc.start && (pc.end < 0 || e.listenerEnd <= pc.end))) putBack = true;
				// The recorded (open) defect needs the claim to SPAN the put-back: list read (empty) -> put-back -> counter decremented ->
				// counter read (0), so when the call returns the declined event is back in the pending list. A claim made while the event
				// is still held in the processing call's private list is a different history and is reported under its own signature.
				bool heldElsewhere = putBack && c.kind == O_EMPTY && e.id < 32 && !((c.queuedAtEnd >> e.id) & 1u);
				if(ce < 0 || ce > c.end)
					ctx.fail(heldElsewhere ? "reported-empty-while-declined-event-still-held" : putBack ? "reported-empty-while-declined-event-put-back" : (c.kind == O_EMPTY ? "reported-empty-while-pending" : "waitfor-timeout-while-pending"),
						fmt("%s on thread %d reported an empty queue although event %d, whose enqueue had returned before the call began, was %s", opName(c.kind), c.thread, e.id,
							e.dispatched ? "still being dispatched" : "still pending"));
			}
		}
		// --- C07 (b),(c),(d)
		for(auto & c : calls) {
			if(c.end < 0) continue;
			if(c.kind == O_WAIT_PROCESS || ((c.kind == O_WAITFOR_PROCESS || c.kind == O_WAITFOR0) && c.result == 1)) {
				for(auto & d : dqns) if(d.ctorDone >= 0 && d.ctorDone <= c.start && (d.dtorStart < 0 || d.dtorStart >= c.end))
					ctx.fail("wait-returned-under-disablenotify", fmt("%s on thread %d returned although a DisableQueueNotify object was alive during the whole call", c.kind == O_WAIT_PROCESS ? "wait()" : "waitFor()", c.thread));
				bool justified = false;
				for(long t = c.start; t <= c.end && !justified; ++t) {
					if(dqnDefinitelyAliveAt(t)) continue;
					// "non-empty" is what the library observes: emptyQueue() is false while any processing call that passed its
					// emptiness pre-check is in flight, even if that call ends up taking nothing (another consumer was faster)
					for(auto & pc : calls) if((pc.kind == O_PROCESS || pc.kind == O_PROCESS_ONE || pc.kind == O_PROCESS_IF_ODD || pc.kind == O_PROCESS_UNTIL_EVEN) && pc.start <= t && (pc.end < 0 || t <= pc.end)) justified = true;
					if(justified) break;
					for(auto & e : evs) {
						if(e.enqStart < 0 || e.enqStart > t) continue;
						long late = e.dispatched ? e.listenerEnd + 2 : (e.taken ? e.consumedSeq : (e.destroyedAt >= 0 ? e.destroyedAt : (long)1 << 40));
						// an event counts as possibly visible until the call that consumed it has returned
						for(auto & pc : calls) if((pc.kind == O_PROCESS || pc.kind == O_PROCESS_ONE || pc.kind == O_PROCESS_IF_ODD || pc.kind == O_PROCESS_UNTIL_EVEN) && e.dispatched && pc.start <= e.listenerEnd && (pc.end < 0 || pc.end >= e.listenerEnd)) late = std::max(late, pc.end < 0 ? (long)1 << 40 : pc.end);
						if(t <= late) { justified = true; break; }
					}
				}
				if(!justified) ctx.fail("wait-returned-without-event", fmt("%s on thread %d returned although at no moment of the call an event was queued with notification enabled", c.kind == O_WAIT_PROCESS ? "wait()" : "waitFor()", c.thread));
			}
			if(c.kind == O_WAITFOR_PROCESS && c.result == 0 && !c.timedOut)
				ctx.fail("waitfor-false-without-timeout", fmt("waitFor on thread %d returned false although its timeout never elapsed", c.thread));
		}
		// outcome hash: what was observable
		for(auto & e : evs) { ctx.obs(e.dispatched * 16 + e.taken * 4 + (e.destroyedAt >= 0 ? 1 : 0)); ctx.obs(e.consumer + 1); }
		for(auto & c : calls) ctx.obs((uint64_t)(c.result + 2) * 7 + (c.end < 0 ? 1 : 0));
		ctx.obs(aborted ? 99 : 1);
	}

	void run() {
		ledger().reset();
		trackObjectsForRaces();
		// assign event ids to enqueue operations in program order
		idsOfThread.assign(cfg.threads.size() + 1, std::vector<int>());
		int id = 0;
		for(size_t t = 0; t < cfg.threads.size(); ++t) for(OpKind k : cfg.threads[t]) for(int i = 0; i < enqueuesOf(k); ++i) {
			++id; idsOfThread[t + 1].push_back(id);
			evs.push_back(Ev{id, (int)t + 1, -1, -1, 0, 0, -1, -1, -1, -1, -1});
		}
		ledger().onDeath = [this](int cls, int pid, bool moved, int copyDepth) {
			// the queue holds the original (reached by moves only); peekEvent hands out copies
			if(cls == TC_PAYLOAD && !moved && copyDepth == 0 && pid >= 1 && pid <= (int)evs.size()) {
				Ev & e = evs[pid - 1];
				if(!consumedAtAll(e) && e.destroyedAt < 0 && e.enqStart >= 0) e.destroyedAt = tick();
			}
		};
		Sched & s = sched();
		s.begin();
		s.spuriousBudget = spurious;
		bool aborted = false;
		{
			std::unique_ptr<QIface> holder(heter ? static_cast<QIface *>(new HeterImpl()) : static_cast<QIface *>(new HomoImpl()));
			QIface & queue = *holder;
			q = &queue;
			queue.share();
			queue.addListener([this](const Tracked & t) { listener(t); });
			try {
				for(size_t t = 0; t < cfg.threads.size(); ++t) { int tn = (int)t + 1; s.spawn([this, tn]() { runThread(tn); }); }
				s.joinAll();
				for(int i = 0; i < 6; ++i) {
					size_t ci = calls.size(); calls.push_back(Call{0, O_PROCESS, tick(), -1, -1, false, 0u});
					bool r = queue.process();
					calls[ci].end = tick(); calls[ci].result = r;
					if(!r) break;
				}
				if(!queue.emptyQueue() && !ctx.failed) ctx.fail("not-empty-after-drain", "emptyQueue() is false after all threads finished and process() returned false");
			}
			catch(SchedAbort &) { aborted = true; }
			s.end();
			ledger().onDeath = nullptr;
			evaluate(aborted);
			q = nullptr;
		}
		checkLedgerErrors(ctx, "after destruction");
		if(ledger().liveTotal(TC_PAYLOAD) != 0 && !ctx.failed) ctx.fail("payload-leak", "payload objects still alive after the queue was destroyed: " + ledger().describeLive());
	}
};

// ------------------------------------------------------------------ configurations
typedef std::vector<OpKind> Prog;
static Config mk(std::initializer_list<Prog> ts, bool obs = false) { Config c; for(auto & t : ts) c.threads.push_back(t); c.listenerObserves = obs; return c; }

static void addConfigs(std::vector<Config> & out, const std::vector<std::vector<Prog> > & axes, bool obs = false, size_t maxThreads = 4) {
	// cartesian product of per-thread program menus; an empty program means "thread absent"
	std::vector<size_t> idx(axes.size(), 0);
	for(;;) {
		Config c; c.listenerObserves = obs;
		for(size_t a = 0; a < axes.size(); ++a) if(!axes[a][idx[a]].empty()) c.threads.push_back(axes[a][idx[a]]);
		if(!c.threads.empty() && c.threads.size() <= maxThreads) out.push_back(c);
		size_t a = 0;
		while(a < axes.size() && ++idx[a] == axes[a].size()) { idx[a] = 0; ++a; }
		if(a == axes.size()) break;
	}
}

static std::vector<Config> configsC07(int tier) {
	std::vector<Config> v;
	std::vector<Prog> waiter = {{O_WAIT_PROCESS}, {O_WAITFOR_PROCESS}};
	std::vector<Prog> enq1 = {{O_ENQ}, {O_DQN_ENQ}, {O_DQN2}, {O_DQN_ENQ, O_ENQ}, {O_ENQ, O_DQN_ENQ}, {O_DQN_ENQ, O_DQN_ENQ}, {O_ENQ, O_ENQ}};
	// 1 waiter || 1 enqueuer
	addConfigs(v, {waiter, enq1});
	// 1 waiter || enqueuer || plain processor / second enqueuer
	std::vector<Prog> third = {{O_PROCESS}, {O_ENQ}, {O_DQN_ENQ}, {O_DQN_ONLY}, {O_DQN_ONLY, O_DQN_ONLY}};
	std::vector<Prog> enqS = {{O_ENQ}, {O_DQN_ENQ}, {O_DQN2}};
	addConfigs(v, {waiter, enqS, third});
	// 2 waiters || enqueuer
	std::vector<Prog> w2 = {{O_WAIT_PROCESS}, {O_WAIT_DRAIN}};
	addConfigs(v, {{{O_WAIT_PROCESS}}, w2, {{O_ENQ, O_ENQ}, {O_DQN_ENQ, O_ENQ}, {O_DQN2}, {O_DQN_ENQ}}});
	// 1 waiter || a thread that enqueues and then consumes selectively: processIf/processUntil put the declined events back
	// WITHOUT notifying, which is only safe because emptyQueue() stays false for the whole call
	std::vector<Prog> putback = {{O_ENQ, O_ENQ, O_PROCESS_IF_ODD}, {O_ENQ, O_ENQ, O_PROCESS_UNTIL_EVEN}};
	addConfigs(v, {waiter, putback});
	addConfigs(v, {{{O_WAIT_PROCESS}}, {{O_ENQ, O_ENQ}}, {{O_PROCESS_IF_ODD}, {O_PROCESS_UNTIL_EVEN}}});
	if(tier >= 1) {
		// 2 waiters || 2 enqueuers (4 threads)
		addConfigs(v, {{{O_WAIT_PROCESS}}, {{O_WAIT_PROCESS}, {O_WAITFOR_PROCESS}}, {{O_ENQ}, {O_DQN_ENQ}}, {{O_ENQ}, {O_DQN_ENQ}}});
	}
	return v;
}

static std::vector<Config> configsC06(int tier) {
	std::vector<Config> v;
	std::vector<Prog> cons1 = {{O_PROCESS}, {O_PROCESS_ONE}, {O_PROCESS_IF_ODD}, {O_PROCESS_UNTIL_EVEN}, {O_TAKE}, {O_PEEK}, {O_CLEAR}};
	std::vector<Prog> cons2;
	OpKind ck[] = {O_PROCESS, O_PROCESS_ONE, O_PROCESS_IF_ODD, O_PROCESS_UNTIL_EVEN, O_TAKE, O_PEEK, O_CLEAR};
	for(OpKind a : ck) for(OpKind b : ck) cons2.push_back({a, b});
	// 1 producer (2 events) || 1 consumer (1 or 2 ops)
	addConfigs(v, {{{O_ENQ, O_ENQ}}, cons1});
	addConfigs(v, {{{O_ENQ, O_ENQ}}, cons2});
	// 1 producer || 2 consumers
	addConfigs(v, {{{O_ENQ, O_ENQ}}, cons1, cons1});
	// 2 producers || 1 consumer with two ops (slot recycling: consume then enqueue again)
	std::vector<Prog> cons2s = {{O_PROCESS, O_PROCESS}, {O_PROCESS_ONE, O_PROCESS}, {O_TAKE, O_PROCESS_ONE}, {O_PROCESS_IF_ODD, O_PROCESS}, {O_CLEAR, O_PROCESS}, {O_PROCESS_UNTIL_EVEN, O_TAKE}, {O_PEEK, O_TAKE}};
	addConfigs(v, {{{O_ENQ}, {O_ENQ, O_ENQ}}, {{O_ENQ}}, cons2s});
	// a producer with three events || a consumer of one || clearEvents/process: the third enqueue takes a recycled slot (free list
	// non-empty) while events are pending - the only way to have the free-list path of enqueue overlap a consumer's list handling
	addConfigs(v, {{{O_ENQ, O_ENQ, O_ENQ}}, {{O_PROCESS_ONE}, {O_TAKE}}, {{O_CLEAR}, {O_PROCESS}}});
	if(tier >= 1) {
		// 2 producers || 2 consumers (4 threads)
		std::vector<Prog> c4 = {{O_PROCESS}, {O_PROCESS_ONE}, {O_TAKE}, {O_PROCESS_IF_ODD}, {O_CLEAR}};
		addConfigs(v, {{{O_ENQ, O_ENQ}}, {{O_ENQ}}, c4, c4});
		// producer that also consumes (recycled slots on the same thread)
		addConfigs(v, {{{O_ENQ, O_PROCESS_ONE, O_ENQ}, {O_ENQ, O_TAKE, O_ENQ}}, cons2s});
	}
	return v;
}

static std::vector<Config> configsC11(int tier) {
	std::vector<Config> v;
	std::vector<Prog> obs = {{O_EMPTY}, {O_EMPTY, O_EMPTY}, {O_WAITFOR0}, {O_ENQ, O_EMPTY}};
	std::vector<Prog> enq = {{O_ENQ}, {O_ENQ, O_ENQ}};
	std::vector<Prog> worker = {{O_PROCESS}, {O_PROCESS_ONE}, {O_PROCESS_IF_ODD}, {O_PROCESS_UNTIL_EVEN}, {O_TAKE}, {O_CLEAR}, {O_PROCESS_ONE, O_PROCESS_ONE}, {O_PROCESS, O_PROCESS}};
	addConfigs(v, {obs, enq, worker}, true);
	// two consumers at once, no separate observer: the listeners themselves ask emptyQueue() while the other consumer's call
	// starts or ends around them (the in-dispatch counter has to count calls, not remember a flag)
	addConfigs(v, {{{O_ENQ, O_ENQ}}, {{O_PROCESS_ONE}}, {{O_PROCESS_ONE}, {O_PROCESS}}}, true);
	// observer that also works; two workers
	if(tier >= 1) {
		std::vector<Prog> w1 = {{O_PROCESS}, {O_PROCESS_ONE}, {O_TAKE}, {O_CLEAR}};
		addConfigs(v, {{{O_EMPTY}, {O_WAITFOR0}}, {{O_ENQ, O_ENQ}}, w1, w1}, true);
	}
	return v;
}

// ------------------------------------------------------------------ units
static const int NSHARDS = 16;

static bool heterSupports(const Config & c) { return !c.has(O_DQN_ENQ) && !c.has(O_DQN2) && !c.has(O_DQN_ONLY) && !c.has(O_TAKE) && !c.has(O_PEEK) && !c.has(O_PROCESS_UNTIL_EVEN); }

static void addFamily(const char * fam, std::vector<Config> (*gen)(int), int boundQuick, int boundThorough, bool heter = false, int minTier = 0) {
	for(int shard = 0; shard < NSHARDS; ++shard) {
		Unit u;
		u.name = fmt("%s/shard%02d", fam, shard);
		u.minTier = minTier;
		auto pick = [=](int tier) {
			std::vector<Config> raw = gen(tier), all, mine;
			for(size_t i = 0; i < raw.size(); ++i) if(!heter || heterSupports(raw[i])) all.push_back(raw[i]);
			for(size_t i = 0; i < all.size(); ++i) if((int)(i % NSHARDS) == shard) mine.push_back(all[i]);
			return mine;
		};
		u.run = [=](Ctx & ctx, UnitReport & rep, int tier) {
			std::vector<Config> mine = pick(tier);
			int bound = tier ? boundThorough : boundQuick;
			rep.num["configs"] = (double)mine.size();
			rep.num["max_preemption_bound"] = bound;
			long maxPoints = 0, deadlocks = 0;
			for(size_t ci = 0; ci < mine.size(); ++ci) {
				const Config & cfg = mine[ci];
				if(ctx.samples.size() < ctx.maxSamples) ctx.samples.push_back(cfg.name());
				// 4-thread configurations are explored one preemption shallower (their schedule space is ~40x larger)
				int cfgBound = cfg.threads.size() >= 4 ? std::min(bound, 2) : (cfg.threads.size() <= 2 && tier >= 1 ? bound + 1 : bound);   // 2-thread configurations one deeper in the thorough tier
				DfsResult r = dfs(ctx, cfgBound, [&]() {
					ctx.ex.choose(1000, 1000, K_OP);   // consumes the forced configuration index
					Run run(ctx, cfg);
					run.heter = heter;
					run.spurious = (tier >= 1 && std::string(fam).compare(0, 3, "C07") == 0) ? 1 : 0;
					run.run();
					maxPoints = std::max(maxPoints, sched().steps);
					if(sched().deadlock.happened) ++deadlocks;
				}, nullptr, std::vector<int>{(int)ci + 1});
				if(!r.complete) { rep.exhaustive = false; break; }
				rep.num["configs_completed"] += 1;
			}
			rep.num["max_points_per_execution"] = (double)maxPoints;
			rep.num["deadlock_outcomes"] = (double)deadlocks;
			rep.num["executions"] = (double)ctx.executions;
			rep.str["config"] = fmt("%s (%s) shard %d/%d: %zu configurations, preemption bound %d", fam, heter ? "HeterEventQueue, V-Threading policy + hook points" : "EventQueue, V-Threading + VList policies", shard, NSHARDS, mine.size(), bound);
		};
		u.replay = [=](Ctx & ctx, const std::vector<int> & seq) {
			// the first element names the configuration (1-based) inside the shard for the tier that produced it; try thorough's list first
			if(seq.empty()) return;
			for(int tier = 1; tier >= 0; --tier) {
				std::vector<Config> mine = pick(tier);
				size_t ci = (size_t)seq[0] - 1;
				if(ci >= mine.size()) continue;
				ctx.ex.prefix = seq; ctx.ex.stack.clear(); ctx.ex.defaultsOnly = true; ctx.ex.beginExecution();
				ctx.ex.choose(1000, 1000, K_OP);
				ctx.tracing = true; ctx.trace.clear(); ctx.failed = false;
				ctx.log("configuration: " + mine[ci].name());
				Run run(ctx, mine[ci]);
				run.heter = heter;
				run.spurious = (ctx.tier >= 1 && std::string(fam).compare(0, 3, "C07") == 0) ? 1 : 0;
				run.run();
				return;
			}
		};
		units().push_back(u);
	}
}

#ifndef VERIF_ONLY
#define VERIF_ONLY 0
#endif
static struct Register {
	Register() {
#if VERIF_ONLY == 0 || VERIF_ONLY == 6
		addFamily("C06", configsC06, 2, 3);
		addFamily("C06/heter", configsC06, 1, 2, true);
#endif
#if VERIF_ONLY == 0 || VERIF_ONLY == 7
		addFamily("C07", configsC07, 2, 3);
		addFamily("C07/heter", configsC07, 2, 2, true);
#endif
#if VERIF_ONLY == 0 || VERIF_ONLY == 11
		addFamily("C11", configsC11, 2, 3);
		addFamily("C11/heter", configsC11, 1, 2, true);
#endif
	}
} reg;

VERIF_MAIN("squeue")
