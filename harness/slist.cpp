// Engine S harness for C03: CallbackList / EventDispatcher listener management and
// dispatch under the controlled scheduler, with a brute-force linearizability check.
#define VERIF_DEFINE_HOOKS
#include "../fw/core.h"
#include "../fw/ledger.h"
#include "../fw/sched.h"
#include <stdexcept>
#include <eventpp/callbacklist.h>
#include <eventpp/eventdispatcher.h>

using namespace verif;

enum Kind { APPEND, PREPEND, INSERT_H1, REMOVE_H1, REMOVE_H2, OWNS_H1, EMPTY, INVOKE, FOREACH, APPEND_E2, DISPATCH_E2, HASANY_E2, NKINDS,
	APPEND_FAIL = NKINDS };    // append of a callback whose copy constructor throws inside the library: the call must fail and change nothing (only in the faulting-append family)
static const char * kindName(int k) {
	static const char * n[] = {"append", "prepend", "insert(before h1)", "remove(h1)", "remove(h2)", "ownsHandle(h1)", "empty", "invoke", "forEach", "appendListener(e2)", "dispatch(e2)", "hasAnyListener(e2)", "append(callback whose copy throws)"};
	return n[k];
}
static bool isTraversal(int k) { return k == INVOKE || k == FOREACH || k == DISPATCH_E2; }
static bool isAdd(int k) { return k == APPEND || k == PREPEND || k == INSERT_H1 || k == APPEND_E2; }

struct OpRec { int thread; int kind; int newId; long start, end; int result; std::vector<int> visited; };

typedef std::vector<int> Prog;
struct Config {
	std::vector<Prog> threads;
	int nInitial = 3;      // callbacks registered before the threads start (0: the list starts empty)
	int firstId = 0;       // the initial callbacks are firstId .. firstId+nInitial-1 (1: the list is [1,2] or [1], so that remove(h1)/remove(h2) EMPTY it)
	int wrapAt = 0;        // k > 0: the generation counter is placed so that the k-th addition made by the threads wraps it
	std::string name() const {
		std::string s = nInitial == 0 ? "(empty list) " : firstId ? fmt("(list of %d) ", nInitial) : "";
		if(wrapAt) s += fmt("(counter wraps at addition %d) ", wrapAt);
		for(size_t t = 0; t < threads.size(); ++t) {
			s += fmt("%sT%zu[", t ? " || " : "", t + 1);
			for(size_t i = 0; i < threads[t].size(); ++i) s += std::string(i ? "; " : "") + kindName(threads[t][i]);
			s += "]";
		}
		return s;
	}
};

// ---- sequential reference model: two lists with tombstones (total order over everything ever present)
struct Model {
	struct N { int id; bool alive; };
	std::vector<N> l[2];
	int find(int li, int id) const { for(size_t i = 0; i < l[li].size(); ++i) if(l[li][i].id == id) return (int)i; return -1; }
	bool alive(int li, int id) const { int p = find(li, id); return p >= 0 && l[li][p].alive; }
	bool anyAlive(int li) const { for(auto & n : l[li]) if(n.alive) return true; return false; }
	// returns the result the operation must report
	int apply(const OpRec & o) {
		switch(o.kind) {
		case APPEND: l[0].push_back(N{o.newId, true}); return -1;
		case APPEND_E2: l[1].push_back(N{o.newId, true}); return -1;
		case PREPEND: l[0].insert(l[0].begin(), N{o.newId, true}); return -1;
		case INSERT_H1: { int p = find(0, 1); if(p >= 0 && l[0][p].alive) l[0].insert(l[0].begin() + p, N{o.newId, true}); else l[0].push_back(N{o.newId, true}); return -1; }
		case REMOVE_H1: case REMOVE_H2: { int id = o.kind == REMOVE_H1 ? 1 : 2; int p = find(0, id); if(p >= 0 && l[0][p].alive) { l[0][p].alive = false; return 1; } return 0; }
		case OWNS_H1: return alive(0, 1) ? 1 : 0;
		case EMPTY: return anyAlive(0) ? 0 : 1;
		case HASANY_E2: return anyAlive(1) ? 1 : 0;
		case APPEND_FAIL: return -2;      // the exception reached the caller; no effect
		}
		return -1;
	}
	std::vector<int> aliveIds(int li) const { std::vector<int> r; for(auto & n : l[li]) if(n.alive) r.push_back(n.id); return r; }
	std::vector<int> allIds(int li) const { std::vector<int> r; for(auto & n : l[li]) r.push_back(n.id); return r; }
};

// ---- targets
static inline int ownerOf(const VMutex & m) { return m.owner; }
template <typename M> static inline int ownerOf(const M &) { return -7; }   // other mutex types: only used by the preemption-bounded units

template <typename Pol>
struct ListT {
	typedef eventpp::CallbackList<void(int), Pol> CL;
	typedef typename CL::Handle Handle;
	CL list;
	static const bool hasE2 = false;
	static const char * name() { return "CallbackList"; }
	void share() { sched().addSharedRange(&list, sizeof list); }
	template <typename F> Handle append(int, F f) { return list.append(f); }
	Handle appendFn(const std::function<void(int)> & f) { return list.append(f); }
	template <typename F> Handle prepend(F f) { return list.prepend(f); }
	template <typename F> Handle insert(F f, const Handle & h) { return list.insert(f, h); }
	bool remove(const Handle & h) { return list.remove(h); }
	bool owns(const Handle & h) { return list.ownsHandle(h); }
	bool empty(int) { return list.empty(); }
	void invoke(int, int v) { list(v); }
	template <typename F> void forEach(int, F f) { list.forEach(f); }
	void presetCounter(unsigned v) { list.currentCounter.value = v; }
	template <typename IdOf> uint64_t sharedHash(IdOf idOf) const { return hashList(list, idOf); }
	template <typename L, typename IdOf> static uint64_t hashList(const L & l, IdOf idOf) {
		uint64_t h = 17; int guard = 0;
		for(auto n = l.head; n && guard < 32; n = n->next, ++guard) { h = mix64(h, (uint64_t)idOf(n->callback) * 8 + (n->counter == 0 ? 1 : 0) + (n->previous ? 2 : 0)); h = mix64(h, n->previous ? (uint64_t)idOf(n->previous->callback) + 50 : 49); }
		h = mix64(h, l.tail ? (uint64_t)idOf(l.tail->callback) + 100 : 99);
		h = mix64(h, (uint64_t)l.currentCounter.value); h = mix64(h, (uint64_t)(ownerOf(l.mutex) + 9));
		return h;
	}
};

template <typename Pol>
struct DispT {
	typedef eventpp::EventDispatcher<int, void(int), Pol> D;
	typedef typename D::Handle Handle;
	D d;
	static const bool hasE2 = true;
	static const char * name() { return "EventDispatcher"; }
	void share() { sched().addSharedRange(&d, sizeof d); }
	template <typename F> Handle append(int e, F f) { return d.appendListener(1 + e, f); }
	Handle appendFn(const std::function<void(int)> & f) { return d.appendListener(1, f); }
	template <typename F> Handle prepend(F f) { return d.prependListener(1, f); }
	template <typename F> Handle insert(F f, const Handle & h) { return d.insertListener(1, f, h); }
	bool remove(const Handle & h) { return d.removeListener(1, h); }
	bool owns(const Handle & h) { return d.ownsHandle(1, h); }
	bool empty(int e) { return !d.hasAnyListener(1 + e); }
	void invoke(int e, int v) { d.dispatch(1 + e, v); }
	template <typename F> void forEach(int e, F f) { d.forEach(1 + e, f); }
	void presetCounter(unsigned v) { auto it = d.eventCallbackListMap.raw().find(1); if(it != d.eventCallbackListMap.raw().end()) const_cast<unsigned &>(it->second.currentCounter.value) = v; }
	template <typename IdOf> uint64_t sharedHash(IdOf idOf) const {
		uint64_t h = 23;
		for(int e = 1; e <= 2; ++e) { auto it = d.eventCallbackListMap.raw().find(e); if(it == d.eventCallbackListMap.raw().end()) h = mix64(h, 5); else h = mix64(h, ListT<Pol>::hashList(it->second, idOf)); }
		h = mix64(h, (uint64_t)(ownerOf(d.listenerMutex) + 9));
		return h;
	}
};

template <typename Target>
struct Run {
	typedef typename Target::Handle Handle;
	Ctx & ctx; const Config & cfg;
	Target * t = nullptr;
	std::vector<OpRec> ops;
	std::vector<Handle> handles;       // by id
	std::vector<int> * curVisit[MAXT];
	long clk = 0;
	long tick() { return ++clk; }
	int nInitial = 3;
	bool stateful = false;
	static int idOfCallback(const std::function<void(int)> & cb) { const Cb * c = cb.template target<Cb>(); return c ? c->id : 31; }
	uint64_t sharedHash() const { HarnessScope hs; return t ? t->sharedHash(&idOfCallback) : 0; }
	void stateHash(uint64_t & a, uint64_t & b) {
		HarnessScope hs;
		uint64_t h = sched().threadsHash();
		h = mix64(h, sharedHash());
		for(auto & o : ops) { h = mix64(h, (uint64_t)(o.start + 2)); h = mix64(h, (uint64_t)(o.end + 2)); h = mix64(h, (uint64_t)(o.result + 3)); for(int v : o.visited) h = mix64(h, (uint64_t)v + 1000); }
		h = mix64(h, ctx.failed ? 1 : 0);
		a = h; b = mix64(h ^ 0x5bd1e9955bd1e995ULL, h >> 11);
	}
	Run(Ctx & c, const Config & cf) : ctx(c), cfg(cf) { nInitial = cf.nInitial; for(int i = 0; i < MAXT; ++i) curVisit[i] = nullptr; }
	int me() const { VThread * m = Sched::me(); return m ? m->id : 0; }

	struct Cb { Run * r; int id; void operator()(int v) const { r->called(id, v); } };
	// a callback whose copy constructor throws while its thread is armed (i.e. only for the copies the library makes)
	bool armed[MAXT + 1] = {};
	struct CbThrow {
		Run * r; int id;
		CbThrow(Run * r_, int i) : r(r_), id(i) {}
		CbThrow(const CbThrow & o) : r(o.r), id(o.id) { if(r->armed[r->me()]) throw std::runtime_error("callback copy failed"); }
		void operator()(int v) const { r->called(id, v); }
	};
	void called(int id, int v) {
		std::vector<int> * vis = curVisit[me()];
		if(!vis) { ctx.fail("call-outside-invocation", fmt("callback %d ran on thread %d while that thread was not invoking", id, me())); return; }
		if(v != 42) ctx.fail("arguments-altered", fmt("callback %d received %d instead of 42", id, v));
		vis->push_back(id);
	}

	void doOp(int thread, OpRec & o) {
		o.start = tick();
		switch(o.kind) {
		case APPEND: handles[o.newId] = t->append(0, Cb{this, o.newId}); break;
		case APPEND_E2: handles[o.newId] = t->append(1, Cb{this, o.newId}); break;
		case PREPEND: handles[o.newId] = t->prepend(Cb{this, o.newId}); break;
		case INSERT_H1: handles[o.newId] = t->insert(Cb{this, o.newId}, handles[1]); break;
		case APPEND_FAIL: {
			std::function<void(int)> f = CbThrow(this, 30);
			armed[thread] = true;
			try { Handle h = t->appendFn(f); o.result = 5; /* it succeeded: the library made no copy?! */ (void)h; }
			catch(const std::runtime_error &) { o.result = -2; }
			armed[thread] = false;
			break;
		}
		case REMOVE_H1: o.result = t->remove(handles[1]); break;
		case REMOVE_H2: o.result = t->remove(handles[2]); break;
		case OWNS_H1: o.result = t->owns(handles[1]); break;
		case EMPTY: o.result = t->empty(0); break;
		case HASANY_E2: o.result = !t->empty(1); break;
		case INVOKE: case DISPATCH_E2: curVisit[thread] = &o.visited; t->invoke(o.kind == INVOKE ? 0 : 1, 42); curVisit[thread] = nullptr; break;
		case FOREACH: {
			std::vector<int> * vis = &o.visited;
			t->forEach(0, [vis](const std::function<void(int)> & cb) { const Cb * c = cb.template target<Cb>(); vis->push_back(c ? c->id : -1); });
			break;
		}
		}
		o.end = tick();
		if(ctx.wantLog()) {
			std::string vs; for(int x : o.visited) vs += fmt(" %d", x);
			ctx.log(fmt("T%d: %s%s -> %s", thread, kindName(o.kind), isAdd(o.kind) ? fmt(" #%d", o.newId).c_str() : "", isTraversal(o.kind) ? ("visited" + vs).c_str() : fmt("%d", o.result).c_str()));
		}
	}

	// ---- linearizability (brute force)
	std::vector<int> finalOrder[2];
	bool checkTraversals(const Model & m, std::string & why) {
		// m holds the tombstoned total order of one candidate linearization
		for(auto & o : ops) {
			if(!isTraversal(o.kind)) continue;
			int li = o.kind == DISPATCH_E2 ? 1 : 0;
			std::vector<int> all = m.allIds(li);
			int last = -1;
			for(int id : o.visited) {
				int p = -1;
				for(size_t i = 0; i < all.size(); ++i) if(all[i] == id) p = (int)i;
				if(p < 0) { why = fmt("%s visited #%d which is not a callback of this list", kindName(o.kind), id); return false; }
				if(p <= last) { why = fmt("%s visited #%d out of list order (or twice)", kindName(o.kind), id); return false; }
				last = p;
			}
		}
		return true;
	}
	bool permute(std::vector<int> & order, std::vector<char> & used, const std::vector<int> & idx, std::string & why) {
		if(order.size() == idx.size()) {
			Model m; for(int i = 0; i < nInitial; ++i) m.l[0].push_back(Model::N{cfg.firstId + i, true});
			for(int k : order) {
				int r = m.apply(ops[k]);
				if(r != ops[k].result) return false;
			}
			if(m.aliveIds(0) != finalOrder[0] || m.aliveIds(1) != finalOrder[1]) return false;
			std::string w;
			if(!checkTraversals(m, w)) { why = w; return false; }
			return true;
		}
		for(size_t i = 0; i < idx.size(); ++i) {
			if(used[i]) continue;
			int k = idx[i];
			// k may come next only if no unused op must precede it (program order, real-time order)
			bool ok = true;
			for(size_t j = 0; j < idx.size() && ok; ++j) if(!used[j] && j != i && ops[idx[j]].end < ops[k].start) ok = false;
			if(!ok) continue;
			used[i] = 1; order.push_back(k);
			if(permute(order, used, idx, why)) return true;
			order.pop_back(); used[i] = 0;
		}
		return false;
	}

	void evaluate(bool aborted) {
		if(aborted) {
			if(sched().deadlock.happened) ctx.fail("deadlock", "threads blocked for ever (no runnable thread) in listener management / dispatch");
			return;
		}
		// a traversal must reach every callback that was in the list for its whole duration, none twice
		for(auto & o : ops) {
			if(!isTraversal(o.kind)) continue;
			int li = o.kind == DISPATCH_E2 ? 1 : 0;
			std::set<int> seen;
			for(int id : o.visited) if(!seen.insert(id).second) ctx.fail("visited-twice", fmt("%s on thread %d visited callback #%d twice", kindName(o.kind), o.thread, id));
			std::vector<int> must;
			if(li == 0) for(int i = 0; i < nInitial; ++i) must.push_back(cfg.firstId + i);
			for(auto & a : ops) if(isAdd(a.kind) && ((a.kind == APPEND_E2) == (li == 1)) && a.end < o.start) must.push_back(a.newId);
			for(int id : must) {
				bool removedPossibly = false;
				for(auto & r : ops) if(((r.kind == REMOVE_H1 && id == 1) || (r.kind == REMOVE_H2 && id == 2)) && r.start < o.end) removedPossibly = true;
				if(!removedPossibly && !seen.count(id)) ctx.fail("callback-missed", fmt("%s on thread %d did not visit callback #%d, which was in the list during the whole call", kindName(o.kind), o.thread, id));
			}
		}
		if(ctx.failed) return;
		std::vector<int> idx;
		for(size_t i = 0; i < ops.size(); ++i) if(!isTraversal(ops[i].kind)) idx.push_back((int)i);
		std::vector<int> order; std::vector<char> used(idx.size(), 0); std::string why;
		if(!permute(order, used, idx, why)) {
			std::string s;
			for(auto & o : ops) if(!isTraversal(o.kind)) s += fmt(" T%d:%s=%d[%ld,%ld]", o.thread, kindName(o.kind), o.result, o.start, o.end);
			std::string fo; for(int x : finalOrder[0]) fo += fmt(" %d", x);
			ctx.fail(why.empty() ? "not-linearizable" : "traversal-order", (why.empty() ? std::string("no sequential order of the calls explains their results and the final list: ") : why + "; calls:") + s + " final:" + fo);
		}
	}

	void run() {
		Sched & s = sched();
		s.begin();
		bool aborted = false;
		// op records, ids
		int nextId = cfg.firstId + nInitial;
		for(size_t th = 0; th < cfg.threads.size(); ++th) for(int k : cfg.threads[th]) {
			OpRec o; o.thread = (int)th + 1; o.kind = k; o.newId = isAdd(k) ? nextId++ : -1; o.start = o.end = -1; o.result = -1;
			ops.push_back(o);
		}
		handles.assign(nextId + 1, Handle());
		{
			Target target; t = &target;
			target.share();
			if(stateful) { s.stateHash = [this](uint64_t & a, uint64_t & b) { stateHash(a, b); }; s.sharedHash = [this]() { return sharedHash(); }; }
			try {
				for(int i = 0; i < nInitial; ++i) handles[cfg.firstId + i] = target.append(0, Cb{this, cfg.firstId + i});
				// a reachable state: the same list after 2^32 - wrapAt - nInitial further add/remove pairs
				if(cfg.wrapAt > 0) { HarnessScope hs; target.presetCounter(0xFFFFFFFFu - (unsigned)(cfg.wrapAt - 1)); }
				size_t base = 0;
				for(size_t th = 0; th < cfg.threads.size(); ++th) {
					size_t b = base, n = cfg.threads[th].size(); int tn = (int)th + 1;
					s.spawn([this, b, n, tn]() { for(size_t i = 0; i < n; ++i) { sched().opBegin((int)i + 1); doOp(tn, ops[b + i]); } sched().opBegin(1000); });
					base += n;
				}
				s.joinAll();
			}
			catch(SchedAbort &) { aborted = true; }
			s.stateHash = nullptr; s.sharedHash = nullptr;
			s.end();
			if(s.pruned) { t = nullptr; return; }     // reached a state that was expanded before: outcome judged there
			if(!aborted) {
				// final content by enumeration, then a destructive probe that exposes damaged back links
				for(int li = 0; li < (Target::hasE2 ? 2 : 1); ++li) {
					std::vector<int> * fo = &finalOrder[li];
					target.forEach(li, [fo](const std::function<void(int)> & cb) { const Cb * c = cb.template target<Cb>(); fo->push_back(c ? c->id : -1); });
				}
			}
			evaluate(aborted);
			if(!aborted && !ctx.failed) probe(target);
			for(auto & o : ops) { ctx.obs(o.result + 2); for(int v : o.visited) ctx.obs(100 + v); ctx.obs(o.end < 0); }
			for(int x : finalOrder[0]) ctx.obs(200 + x);
			t = nullptr;
		}
	}

	void probe(Target & target) {
		std::vector<int> cur = finalOrder[0];
		// remove from the back, enumerating after each removal
		while(!cur.empty()) {
			int id = cur.back(); cur.pop_back();
			bool r = target.remove(handles[id]);
			if(!r) { ctx.fail("probe-remove-failed", fmt("after the threads joined, remove of callback #%d (present in the final enumeration) returned false", id)); return; }
			std::vector<int> now;
			target.forEach(0, [&now](const std::function<void(int)> & cb) { const Cb * c = cb.template target<Cb>(); now.push_back(c ? c->id : -1); });
			if(now != cur) {
				std::string a, b; for(int x : now) a += fmt(" %d", x); for(int x : cur) b += fmt(" %d", x);
				ctx.fail("probe-links-damaged", fmt("after the threads joined, removing #%d left the list as [%s ] instead of [%s ]: links were damaged by the concurrent calls", id, a.c_str(), b.c_str()));
				return;
			}
		}
		if(!target.empty(0)) ctx.fail("probe-not-empty", "list not empty after all callbacks were removed");
		Handle h = target.append(0, Cb{this, 0});
		std::vector<int> now;
		target.forEach(0, [&now](const std::function<void(int)> & cb) { const Cb * c = cb.template target<Cb>(); now.push_back(c ? c->id : -1); });
		if(now.size() != 1) ctx.fail("probe-links-damaged", "appending to the emptied list does not give a one-element list");
	}
};

// ------------------------------------------------------------------ configurations
static bool touchesH1(int k) { return k == INSERT_H1 || k == REMOVE_H1 || k == OWNS_H1; }
static bool mutates(int k) { return isAdd(k) || k == REMOVE_H1 || k == REMOVE_H2; }

// configurations in which the generation counter wraps during one of the threads' additions (the renumbering of all
// nodes then races the other threads' calls); every addition position that can be the wrapping one is generated
static std::vector<Config> genWrap(int tier, bool disp) {
	std::vector<Config> v;
	const int adds[] = {APPEND, PREPEND, INSERT_H1};
	std::vector<int> others = {APPEND, PREPEND, INSERT_H1, REMOVE_H1, REMOVE_H2, OWNS_H1, EMPTY, INVOKE, FOREACH};
	if(disp) { others.push_back(APPEND_E2); others.push_back(DISPATCH_E2); }
	auto nAdds = [](const Config & c) { int n = 0; for(auto & t : c.threads) for(int k : t) if(k == APPEND || k == PREPEND || k == INSERT_H1) ++n; return n; };
	auto push = [&](Config c) { int n = nAdds(c); for(int w = 1; w <= n; ++w) { c.wrapAt = w; v.push_back(c); } };
	// 2 threads x 1 op
	for(int a : adds) for(int b : others) { Config c; c.threads = {{a}, {b}}; push(c); }
	// from an empty list (ListT only: the dispatcher has no list to preset before the first listener)
	if(!disp) for(int a : {APPEND, PREPEND}) for(int b : {APPEND, INVOKE, FOREACH, EMPTY}) { Config c; c.nInitial = 0; c.threads = {{a}, {b}}; push(c); }
	// 3 threads x 1 op: the wrapping addition against two other calls, at least one of them a removal, traversal or addition
	for(int a : adds) for(size_t i = 0; i < others.size(); ++i) for(size_t j = i; j < others.size(); ++j) {
		int b = others[i], c3 = others[j];
		bool interesting = (mutates(b) || isTraversal(b)) && (mutates(c3) || isTraversal(c3));
		if(!interesting) continue;
		if(tier == 0 && !(a == APPEND && (b == REMOVE_H1 || b == REMOVE_H2 || c3 == REMOVE_H1 || c3 == REMOVE_H2 || (isTraversal(b) && isAdd(c3)) || (isAdd(b) && isTraversal(c3))))) continue;
		Config c; c.threads = {{a}, {b}, {c3}}; push(c);
	}
	// 2 threads x 2 ops: an addition and a follow-up against two calls of the other thread
	for(int a1 : adds) for(int a2 : others) for(int b1 : others) for(int b2 : others) {
		if(!(mutates(b1) || mutates(b2) || isTraversal(b1) || isTraversal(b2))) continue;
		if(tier == 0 && ((a1 * 7 + a2 * 3 + b1 * 5 + b2) % 5 != 0)) continue;
		Config c; c.threads = {{a1, a2}, {b1, b2}}; push(c);
		if(tier >= 1 && a2 != a1) { Config c2; c2.threads = {{a2, a1}, {b1, b2}}; push(c2); }
	}
	return v;
}

// configurations in which one thread's append FAILS (the copy of its callback throws inside the library) while other threads add,
// remove and traverse: the failed call must have no effect whatever it overlaps with
static std::vector<Config> genFault(int tier, bool disp) {
	std::vector<Config> v;
	std::vector<int> others = {APPEND, PREPEND, INSERT_H1, REMOVE_H1, REMOVE_H2, OWNS_H1, EMPTY, INVOKE, FOREACH};
	if(disp) { others.push_back(APPEND_E2); others.push_back(DISPATCH_E2); }
	for(int b : others) { Config c; c.threads = {{APPEND_FAIL}, {b}}; v.push_back(c); }
	for(int b : {APPEND, PREPEND, INVOKE}) { Config c; c.nInitial = 0; c.threads = {{APPEND_FAIL}, {b}}; v.push_back(c); }
	for(size_t i = 0; i < others.size(); ++i) for(size_t j = i; j < others.size(); ++j) {
		int b = others[i], c3 = others[j];
		if(!(mutates(b) || mutates(c3))) continue;
		if(tier == 0 && !((isAdd(b) && (isTraversal(c3) || isAdd(c3))) || (isAdd(c3) && isTraversal(b)))) continue;
		Config c; c.threads = {{APPEND_FAIL}, {b}, {c3}}; v.push_back(c);
	}
	for(int a2 : others) for(int b1 : others) for(int b2 : others) {
		if(!(mutates(b1) || mutates(b2))) continue;
		if(tier == 0 && ((a2 * 3 + b1 * 5 + b2) % 4 != 0)) continue;
		{ Config c; c.threads = {{APPEND_FAIL, a2}, {b1, b2}}; v.push_back(c); }
		if(tier >= 1) { Config c; c.threads = {{a2, APPEND_FAIL}, {b1, b2}}; v.push_back(c); }
	}
	// ... and with the counter wrapping on one of the successful additions
	size_t n = v.size();
	for(size_t i = 0; i < n; ++i) { bool hasAdd = false; for(auto & t : v[i].threads) for(int k : t) if(k == APPEND || k == PREPEND || k == INSERT_H1) hasAdd = true; if(hasAdd && (tier >= 1 || i % 3 == 0)) { Config c = v[i]; c.wrapAt = 1; v.push_back(c); } }
	return v;
}

static std::vector<Config> gen(int tier, bool disp, int wrap = 0) {
	if(wrap == 2) return genFault(tier, disp);
	if(wrap) return genWrap(tier, disp);
	std::vector<int> alpha;
	for(int k = 0; k < (disp ? (int)NKINDS : (int)APPEND_E2); ++k) alpha.push_back(k);
	std::vector<Config> v;
	// 2 threads x 1 op: all ordered pairs with at least one mutation
	for(int a : alpha) for(int b : alpha) if(a <= b && (mutates(a) || mutates(b))) { Config c; c.threads = {{a}, {b}}; v.push_back(c); }
	// the same from an EMPTY list (no handles to refer to): the first additions race each other and the traversals
	{
		const int ea[] = {APPEND, PREPEND, INVOKE, FOREACH, EMPTY};
		for(int a : ea) for(int b : ea) if(a <= b && (isAdd(a) || isAdd(b))) { Config c; c.nInitial = 0; c.threads = {{a}, {b}}; v.push_back(c); }
		for(int x : ea) { Config c; c.nInitial = 0; c.threads = {{PREPEND}, {APPEND}, {x}}; v.push_back(c); }
		{ Config c; c.nInitial = 0; c.threads = {{PREPEND, APPEND}, {APPEND, INVOKE}}; v.push_back(c); }
	}
	// lists that the removals EMPTY while other threads traverse, query and add ([1] emptied by remove(h1), [1,2] by both removals):
	// whatever a container does with an event's list once it has no listener left must not disturb the calls in flight
	{
		std::vector<int> xs = {APPEND, PREPEND, INSERT_H1, OWNS_H1, EMPTY, INVOKE, FOREACH, REMOVE_H1};
		if(disp) { xs.push_back(APPEND_E2); xs.push_back(DISPATCH_E2); }
		for(int x : xs) { Config c; c.firstId = 1; c.nInitial = 1; c.threads = {{REMOVE_H1}, {x}}; v.push_back(c); }
		for(int x : xs) { Config c; c.firstId = 1; c.nInitial = 2; c.threads = {{REMOVE_H1}, {REMOVE_H2}, {x}}; v.push_back(c); }
		for(int x : {INVOKE, FOREACH, APPEND}) { Config c; c.firstId = 1; c.nInitial = 1; c.threads = {{REMOVE_H1, APPEND}, {x, EMPTY}}; v.push_back(c); }
		for(int x : {INVOKE, FOREACH}) { Config c; c.firstId = 1; c.nInitial = 1; c.threads = {{x}, {REMOVE_H1}, {APPEND}}; v.push_back(c); }
	}
	// 3 threads x 1 op: triples containing a traversal or two operations on h1
	for(int a : alpha) for(int b : alpha) for(int c3 : alpha) {
		if(!(a <= b && b <= c3)) continue;
		int trav = isTraversal(a) + isTraversal(b) + isTraversal(c3);
		int h1 = touchesH1(a) + touchesH1(b) + touchesH1(c3);
		int mut = mutates(a) + mutates(b) + mutates(c3);
		if(mut == 0) continue;
		bool keep = (trav >= 1 && mut >= 1) || h1 >= 2;
		if(tier == 0) keep = keep && (h1 >= 2 || (trav >= 1 && mut >= 2)) && !(trav >= 2);
		if(keep) { Config c; c.threads = {{a}, {b}, {c3}}; v.push_back(c); }
	}
	// 2 threads x 2 ops
	for(int a1 : alpha) for(int a2 : alpha) for(int b1 : alpha) for(int b2 : alpha) {
		int mut = mutates(a1) + mutates(a2) + mutates(b1) + mutates(b2);
		if(mut < 2) continue;
		if(a1 * 100 + a2 > b1 * 100 + b2) continue;
		bool keep = true;
		if(tier == 0) {
			// collision-rich subset: both threads mutate, and h1 is touched by both or a traversal races two mutations
			int h1a = touchesH1(a1) + touchesH1(a2), h1b = touchesH1(b1) + touchesH1(b2);
			int trav = isTraversal(a1) + isTraversal(a2) + isTraversal(b1) + isTraversal(b2);
			keep = (mutates(a1) || mutates(a2)) && (mutates(b1) || mutates(b2)) && ((h1a >= 1 && h1b >= 1) || (trav == 1 && mut == 3));
			keep = keep && ((a1 * 7 + a2 * 3 + b1 * 5 + b2) % 3 == 0);
		}
		if(keep) { Config c; c.threads = {{a1, a2}, {b1, b2}}; v.push_back(c); }
	}
	return v;
}

static const int NSHARDS = 16;

template <typename Target>
static void addFamily(const std::string & fam, bool disp, int boundQuick, int boundThorough, int minTier, int wrap = 0) {
	for(int shard = 0; shard < NSHARDS; ++shard) {
		Unit u;
		u.name = fmt("%s/shard%02d", fam.c_str(), shard);
		u.minTier = minTier;
		auto pick = [=](int tier) {
			std::vector<Config> all = gen(tier, disp, wrap), mine;
			for(size_t i = 0; i < all.size(); ++i) if((int)(i % NSHARDS) == shard) mine.push_back(all[i]);
			return mine;
		};
		u.run = [=](Ctx & ctx, UnitReport & rep, int tier) {
			std::vector<Config> mine = pick(tier);
			int bound = tier ? boundThorough : boundQuick;
			rep.num["configs"] = (double)mine.size();
			rep.num["max_preemption_bound"] = bound;
			long maxPoints = 0;
			for(size_t ci = 0; ci < mine.size(); ++ci) {
				const Config & cfg = mine[ci];
				if(ctx.samples.size() < 3) ctx.samples.push_back(cfg.name());
				// 3-thread configurations one preemption shallower than the 2-thread ones in the thorough tier
				int cfgBound = (tier >= 1 && cfg.threads.size() >= 3) ? bound - 1 : bound;
				DfsResult r = dfs(ctx, cfgBound, [&]() {
					ctx.ex.choose(100000, 100000, K_OP);
					Run<Target> run(ctx, cfg);
					run.run();
					maxPoints = std::max(maxPoints, sched().steps);
				}, nullptr, std::vector<int>{(int)ci + 1});
				if(!r.complete) { rep.exhaustive = false; break; }
				rep.num["configs_completed"] += 1;
			}
			rep.num["max_points_per_execution"] = (double)maxPoints;
			rep.num["executions"] = (double)ctx.executions;
			rep.str["config"] = fmt("%s (%s) shard %d/%d: %zu configurations, preemption bound %d", fam.c_str(), Target::name(), shard, NSHARDS, mine.size(), bound);
		};
		u.replay = [=](Ctx & ctx, const std::vector<int> & seq) {
			if(seq.empty()) return;
			{
				std::vector<Config> mine = pick(ctx.tier);
				size_t ci = (size_t)seq[0] - 1;
				if(ci >= mine.size()) return;
				ctx.ex.prefix = seq; ctx.ex.stack.clear(); ctx.ex.defaultsOnly = true; ctx.ex.beginExecution();
				ctx.ex.choose(100000, 100000, K_OP);
				ctx.tracing = true; ctx.trace.clear(); ctx.failed = false;
				ctx.log("configuration: " + mine[ci].name());
				Run<Target> run(ctx, mine[ci]);
				run.run();
				return;
			}
		};
		units().push_back(u);
	}
}

template <typename Target>
static void addStatefulFamily(const std::string & fam, bool disp, int minTier, int wrap = 0) {
	for(int shard = 0; shard < NSHARDS; ++shard) {
		Unit u;
		u.name = fmt("%s/shard%02d", fam.c_str(), shard);
		u.minTier = minTier;
		auto pick = [=](int tier) {
			std::vector<Config> all = gen(tier, disp, wrap), mine;
			// the dispatcher's full thorough set is ~250 M states (measured); keep every third configuration of it - a fixed
			// subset of configurations, each still explored in full (the quick tier's collision-rich subset is generated separately)
			// wrap configurations: the 2-thread x 1-op ones in the quick tier, the quick generator's whole set in the thorough tier
			if(wrap == 1) { all = gen(0, disp, 1); if(tier == 0) { std::vector<Config> small; for(auto & c : all) { size_t n = 0; for(auto & t : c.threads) n += t.size(); if(n <= 2) small.push_back(c); } all.swap(small); } }
			if(tier >= 1 && disp && !wrap) { std::vector<Config> third; for(size_t i = 0; i < all.size(); i += 3) third.push_back(all[i]); all.swap(third); }
			for(size_t i = 0; i < all.size(); ++i) if((int)(i % NSHARDS) == shard) mine.push_back(all[i]);
			return mine;
		};
		u.run = [=](Ctx & ctx, UnitReport & rep, int tier) {
			std::vector<Config> mine = pick(tier);
			rep.num["configs"] = (double)mine.size();
			Sched & s = sched();
			double states = 0; long maxPoints = 0;
			for(size_t ci = 0; ci < mine.size(); ++ci) {
				const Config & cfg = mine[ci];
				if(ctx.samples.size() < 3) ctx.samples.push_back(cfg.name());
				std::unordered_set<uint64_t> va, vb;
				s.stateful = true; s.visitedA = &va; s.visitedB = &vb; s.maxSteps = 20000;
				// a few 3-thread dispatcher configurations have tens of millions of states: a configuration is given up at 1.5 M
				// states (reported: configs_capped, not exhaustive) so that the rest of the shard is still explored in full
				const size_t stateCap = 1500000;
				DfsResult r = dfs(ctx, 1 << 24, [&]() {
					ctx.ex.choose(100000, 100000, K_OP);
					Run<Target> run(ctx, cfg); run.stateful = true;
					run.run();
					maxPoints = std::max(maxPoints, sched().steps);
					if(va.size() > stateCap) ctx.abandonSearch = true;
				}, nullptr, std::vector<int>{(int)ci + 1});
				s.stateful = false;
				states += (double)va.size();
				if(r.abandoned) { rep.exhaustive = false; rep.num["configs_capped"] += 1; continue; }
				if(!r.complete) { rep.exhaustive = false; break; }
				rep.num["configs_completed"] += 1;
			}
			rep.num["states"] = states;
			rep.num["pruned_executions"] = (double)s.prunedCount;
			rep.num["max_points_per_execution"] = (double)maxPoints;
			rep.num["executions"] = (double)ctx.executions;
			rep.str["config"] = fmt("%s (%s) shard %d/%d: %zu configurations, ALL interleavings (visited-state pruning, no preemption bound)", fam.c_str(), Target::name(), shard, NSHARDS, mine.size());
		};
		u.replay = [=](Ctx & ctx, const std::vector<int> & seq) {
			if(seq.empty()) return;
			std::vector<Config> mine = pick(ctx.tier);
			size_t ci = (size_t)seq[0] - 1;
			if(ci >= mine.size()) return;
			ctx.ex.prefix = seq; ctx.ex.stack.clear(); ctx.ex.defaultsOnly = true; ctx.ex.beginExecution();
			ctx.ex.choose(100000, 100000, K_OP);
			ctx.tracing = true; ctx.trace.clear(); ctx.failed = false;
			sched().stateful = false;
			ctx.log("configuration: " + mine[ci].name());
			Run<Target> run(ctx, mine[ci]);
			run.run();
		};
		units().push_back(u);
	}
}

struct PolV { using Threading = VThreading; };
struct PolSpin { using Threading = eventpp::GeneralThreading<eventpp::SpinLock, VAtomic, VCondVar>; };
struct PolVMap { using Threading = VThreading; template <typename K, typename V> using Map = VOrderedMap<K, V>; };
struct PolVHash { using Threading = VThreading; template <typename K, typename V> using Map = VHashMap<K, V>; };
struct PolSpinMap { using Threading = eventpp::GeneralThreading<eventpp::SpinLock, VAtomic, VCondVar>; template <typename K, typename V> using Map = VHashMap<K, V>; };

#ifndef VERIF_SUB
#define VERIF_SUB -1
#endif
static struct Register {
	Register() {
#if VERIF_SUB < 0 || VERIF_SUB == 0
		addFamily<ListT<PolV> >("C03/list/vmutex", false, 3, 5, 0);
#endif
#if VERIF_SUB < 0 || VERIF_SUB == 1
		addFamily<ListT<PolSpin> >("C03/list/spinlock", false, 2, 4, 0);
#endif
#if VERIF_SUB < 0 || VERIF_SUB == 2
		addFamily<DispT<PolVMap> >("C03/dispatcher/vmutex-map", true, 2, 4, 0);
#endif
#if VERIF_SUB < 0 || VERIF_SUB == 3
		addFamily<DispT<PolVHash> >("C03/dispatcher/vmutex-unordered_map", true, 2, 4, 0);
#endif
#if VERIF_SUB < 0 || VERIF_SUB == 5
		addStatefulFamily<ListT<PolV> >("C03/all-interleavings/list", false, 0);
#endif
#if VERIF_SUB < 0 || VERIF_SUB == 6
		addStatefulFamily<DispT<PolVMap> >("C03/all-interleavings/dispatcher-map", true, 1);
#endif
#if VERIF_SUB < 0 || VERIF_SUB == 4
		addFamily<DispT<PolSpinMap> >("C03/dispatcher/spinlock-unordered_map", true, 2, 3, 1);
#endif
#if (VERIF_SUB < 0 || VERIF_SUB == 7) && !defined(VERIF_NO_PRIVATE)
		// the generation counter wraps during one of the concurrent additions (placed through private access, as C19 does)
		addFamily<ListT<PolV> >("C03/wrap/list/vmutex", false, 2, 4, 0, true);
		addStatefulFamily<ListT<PolV> >("C03/wrap/all-interleavings/list", false, 0, true);
#endif
#if (VERIF_SUB < 0 || VERIF_SUB == 9) && !defined(VERIF_NO_PRIVATE)
		// one thread's append fails inside the library (throwing callback copy) while the others work on the same list
		addFamily<ListT<PolV> >("C03/faulting-append/list/vmutex", false, 2, 3, 0, 2);
		addFamily<DispT<PolVMap> >("C03/faulting-append/dispatcher/vmutex-map", true, 2, 3, 0, 2);
#endif
#if (VERIF_SUB < 0 || VERIF_SUB == 8) && !defined(VERIF_NO_PRIVATE)
		addFamily<DispT<PolVMap> >("C03/wrap/dispatcher/vmutex-map", true, 2, 3, 0, true);
		addFamily<ListT<PolSpin> >("C03/wrap/list/spinlock", false, 2, 3, 1, true);
#endif
	}
} reg;

VERIF_MAIN("slist")
