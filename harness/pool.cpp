// Engine H harness over pools of objects for C10 (copy / move / swap), with the
// ledger of callback copies, prior-memory patterns (placement into pre-filled
// storage) and the generation-counter preset of C19.
#define VERIF_DEFINE_HOOKS
#include "../fw/core.h"
#include "../fw/ledger.h"
#include "../fw/sched.h"
#include <eventpp/callbacklist.h>
#include <eventpp/eventdispatcher.h>
#include <eventpp/eventqueue.h>
#include <eventpp/hetercallbacklist.h>
#include <eventpp/hetereventdispatcher.h>
#include <eventpp/hetereventqueue.h>
#include <eventpp/mixins/mixinfilter.h>
#include <climits>
#include <new>

using namespace verif;

struct HarnessBase { virtual ~HarnessBase() {} virtual void onCall(int id, int arg) = 0; virtual bool onFilter(int fid, int & arg) = 0; };
static HarnessBase * g_h = nullptr;

struct Fn : TrackedBase<TC_CALLBACK> {
	explicit Fn(int id_ = 0) : TrackedBase<TC_CALLBACK>(id_) {}
	void operator()(int v) const { int my = id; if(alive()) g_h->onCall(my, v); }
	void operator()(const std::string & s) const { int my = id; if(alive()) g_h->onCall(my, (int)s.size()); }
};
struct FnInt : TrackedBase<TC_CALLBACK> {      // callable with int only (binds to the first prototype)
	explicit FnInt(int id_ = 0) : TrackedBase<TC_CALLBACK>(id_) {}
	void operator()(int v) const { int my = id; if(alive()) g_h->onCall(my, v); }
};
struct FnStr : TrackedBase<TC_CALLBACK> {      // callable with string only (second prototype)
	explicit FnStr(int id_ = 0) : TrackedBase<TC_CALLBACK>(id_) {}
	void operator()(const std::string & s) const { int my = id; if(alive()) g_h->onCall(my, (int)s.size()); }
};
struct Flt : TrackedBase<TC_OTHER> {
	explicit Flt(int id_ = 0) : TrackedBase<TC_OTHER>(id_) {}
	bool operator()(int & v) const { int my = id; return alive() ? g_h->onFilter(my, v) : true; }
};

// ------------------------------------------------------------------ adapters: one per container type
// Common interface:  add(id) / removeAt(pos) / trigger() [synchronous] / optional queue + filter operations.
template <typename Th> struct P { using Threading = Th; };
template <typename Th> struct PF { using Threading = Th; using Mixins = eventpp::MixinList<eventpp::MixinFilter>; };

template <typename Th>
struct ACallbackList {
	typedef eventpp::CallbackList<void(int), P<Th> > T;
	static const char * name() { return "CallbackList"; }
	static const bool isQueue = false, hasFilter = false;
	static void add(T & o, int id) { o.append(Fn(id)); }
	static const bool canInsert = true;
	static void insertBefore(T & o, int id, const typename T::Handle & h) { o.insert(Fn(id), h); }
	static typename T::Handle handleAt(T & o, int pos, bool & found) { typename T::Handle h; int i = 0; found = false; o.forEach([&](const typename T::Handle & hh, const typename T::Callback &) { if(i++ == pos) { h = hh; found = true; } }); return h; }
	static bool removeHandle(T & o, const typename T::Handle & h) { return o.remove(h); }
	static bool handleAlive(const typename T::Handle & h) { return !h.expired(); }
	static bool removeAt(T & o, int pos) { bool found; typename T::Handle h = handleAt(o, pos, found); return removeHandle(o, h); }
	static void trigger(T & o, int v) { o(v); }
#ifndef VERIF_NO_PRIVATE
	static void preset(T & o, unsigned v) { o.currentCounter.store(v); }
#else
	static void preset(T &, unsigned) {}
#endif
	static bool hasAny(T & o) { return !o.empty(); }
};
template <typename Th>
struct ADispatcher {
	typedef eventpp::EventDispatcher<int, void(int), P<Th> > T;
	static const char * name() { return "EventDispatcher"; }
	static const bool isQueue = false, hasFilter = false;
	static void add(T & o, int id) { o.appendListener(5, Fn(id)); }
	static const bool canInsert = true;
	static void insertBefore(T & o, int id, const typename T::Handle & h) { o.insertListener(5, Fn(id), h); }
	static typename T::Handle handleAt(T & o, int pos, bool & found) { typename T::Handle h; int i = 0; found = false; o.forEach(5, [&](const typename T::Handle & hh, const typename T::Callback &) { if(i++ == pos) { h = hh; found = true; } }); return h; }
	static bool removeHandle(T & o, const typename T::Handle & h) { return o.removeListener(5, h); }
	static bool handleAlive(const typename T::Handle & h) { return !h.expired(); }
	static bool removeAt(T & o, int pos) { bool found; typename T::Handle h = handleAt(o, pos, found); return removeHandle(o, h); }
	static void trigger(T & o, int v) { o.dispatch(5, v); }
	static void preset(T &, unsigned) {}
	static bool hasAny(T & o) { return o.hasAnyListener(5); }
};
template <typename Th, typename Pol = P<Th> >
struct AQueue {
	typedef eventpp::EventQueue<int, void(int), Pol> T;
	static const char * name() { return std::is_same<Pol, P<Th> >::value ? "EventQueue" : "EventQueue+MixinFilter"; }
	static const bool isQueue = true, hasFilter = !std::is_same<Pol, P<Th> >::value;
	static const bool hasDqn = true;
	// {DisableQueueNotify on dst; dst = src; enqueue on dst} - assignment while a guard object of the destination is alive
	static void assignUnderDqn(T & dst, T & src, int v) { typename T::DisableQueueNotify guard(&dst); dst = src; dst.enqueue(5, v); }
	static void add(T & o, int id) { o.appendListener(5, Fn(id)); }
	static const bool canInsert = true;
	static void insertBefore(T & o, int id, const typename T::Handle & h) { o.insertListener(5, Fn(id), h); }
	static typename T::Handle handleAt(T & o, int pos, bool & found) { typename T::Handle h; int i = 0; found = false; o.forEach(5, [&](const typename T::Handle & hh, const typename T::Callback &) { if(i++ == pos) { h = hh; found = true; } }); return h; }
	static bool removeHandle(T & o, const typename T::Handle & h) { return o.removeListener(5, h); }
	static bool handleAlive(const typename T::Handle & h) { return !h.expired(); }
	static bool removeAt(T & o, int pos) { bool found; typename T::Handle h = handleAt(o, pos, found); return removeHandle(o, h); }
	static void trigger(T & o, int v) { o.dispatch(5, v); }
	static void preset(T &, unsigned) {}
	static bool hasAny(T & o) { return o.hasAnyListener(5); }
	static void enqueue(T & o, int v) { o.enqueue(5, v); }
	static bool process(T & o) { return o.process(); }
	static bool emptyQueue(T & o) { return o.emptyQueue(); }
	static bool waitFor0(T & o) { return o.waitFor(std::chrono::milliseconds(0)); }
	static void wait(T & o) { o.wait(); }
	template <typename F> static void addFilter(T & o, F f) { o.appendFilter(f); }
};
template <typename Th>
struct ADispatcherF {
	typedef eventpp::EventDispatcher<int, void(int), PF<Th> > T;
	static const char * name() { return "EventDispatcher+MixinFilter"; }
	static const bool isQueue = false, hasFilter = true;
	static void add(T & o, int id) { o.appendListener(5, Fn(id)); }
	static const bool canInsert = true;
	static void insertBefore(T & o, int id, const typename T::Handle & h) { o.insertListener(5, Fn(id), h); }
	static typename T::Handle handleAt(T & o, int pos, bool & found) { typename T::Handle h; int i = 0; found = false; o.forEach(5, [&](const typename T::Handle & hh, const typename T::Callback &) { if(i++ == pos) { h = hh; found = true; } }); return h; }
	static bool removeHandle(T & o, const typename T::Handle & h) { return o.removeListener(5, h); }
	static bool handleAlive(const typename T::Handle & h) { return !h.expired(); }
	static bool removeAt(T & o, int pos) { bool found; typename T::Handle h = handleAt(o, pos, found); return removeHandle(o, h); }
	static void trigger(T & o, int v) { o.dispatch(5, v); }
	static void preset(T &, unsigned) {}
	static bool hasAny(T & o) { return o.hasAnyListener(5); }
	template <typename F> static void addFilter(T & o, F f) { o.appendFilter(f); }
};
typedef eventpp::HeterTuple<void(int), void(const std::string &)> HT;
template <typename Th>
struct AHeterList {
	typedef eventpp::HeterCallbackList<HT, P<Th> > T;
	static const char * name() { return "HeterCallbackList"; }
	static const bool isQueue = false, hasFilter = false;
	static void add(T & o, int id) { if(id % 2) o.append(FnStr(id)); else o.append(FnInt(id)); }
	// position counts int-prototype callbacks first, then string-prototype ones (that is the trigger order below)
	static typename T::Handle handleAt(T & o, int pos, bool & found) {
		typename T::Handle h{-1, {}}; found = false; int i = 0;
		o.template forEach<void(int)>([&](const typename T::Handle & hh, const std::function<void(int)> &) { if(i++ == pos) { h = hh; found = true; } });
		o.template forEach<void(const std::string &)>([&](const typename T::Handle & hh, const std::function<void(const std::string &)> &) { if(i++ == pos) { h = hh; found = true; } });
		return h;
	}
	static bool removeHandle(T & o, const typename T::Handle & h) { return o.remove(h); }
	static bool handleAlive(const typename T::Handle & h) { return !h.homoHandle.expired(); }
	static bool removeAt(T & o, int pos) { bool found; typename T::Handle h = handleAt(o, pos, found); return found ? removeHandle(o, h) : false; }
	static void trigger(T & o, int v) { o(v); o(std::string((size_t)v, 'x')); }
	static void preset(T &, unsigned) {}
	static bool hasAny(T & o) { return !o.empty(); }
};
template <typename Th>
struct AHeterDispatcher {
	typedef eventpp::HeterEventDispatcher<int, HT, P<Th> > T;
	static const char * name() { return "HeterEventDispatcher"; }
	static const bool isQueue = false, hasFilter = false;
	static void add(T & o, int id) { if(id % 2) o.appendListener(5, FnStr(id)); else o.appendListener(5, FnInt(id)); }
	static typename T::Handle handleAt(T & o, int pos, bool & found) {
		typename T::Handle h{-1, {}}; found = false; int i = 0;
		o.template forEach<void(int)>(5, [&](const typename T::Handle & hh, const std::function<void(int)> &) { if(i++ == pos) { h = hh; found = true; } });
		o.template forEach<void(const std::string &)>(5, [&](const typename T::Handle & hh, const std::function<void(const std::string &)> &) { if(i++ == pos) { h = hh; found = true; } });
		return h;
	}
	static bool removeHandle(T & o, const typename T::Handle & h) { return o.removeListener(5, h); }
	static bool handleAlive(const typename T::Handle & h) { return !h.homoHandle.expired(); }
	static bool removeAt(T & o, int pos) { bool found; typename T::Handle h = handleAt(o, pos, found); return found ? removeHandle(o, h) : false; }
	static void trigger(T & o, int v) { o.dispatch(5, v); o.dispatch(5, std::string((size_t)v, 'x')); }
	static void preset(T &, unsigned) {}
	static bool hasAny(T & o) { return o.hasAnyListener(5); }
};
template <typename Th>
struct AHeterQueue {
	typedef eventpp::HeterEventQueue<int, HT, P<Th> > T;
	static const char * name() { return "HeterEventQueue"; }
	static const bool isQueue = true, hasFilter = false;
	static void add(T & o, int id) { if(id % 2) o.appendListener(5, FnStr(id)); else o.appendListener(5, FnInt(id)); }
	static typename T::Handle handleAt(T & o, int pos, bool & found) {
		typename T::Handle h{-1, {}}; found = false; int i = 0;
		o.template forEach<void(int)>(5, [&](const typename T::Handle & hh, const std::function<void(int)> &) { if(i++ == pos) { h = hh; found = true; } });
		o.template forEach<void(const std::string &)>(5, [&](const typename T::Handle & hh, const std::function<void(const std::string &)> &) { if(i++ == pos) { h = hh; found = true; } });
		return h;
	}
	static bool removeHandle(T & o, const typename T::Handle & h) { return o.removeListener(5, h); }
	static bool handleAlive(const typename T::Handle & h) { return !h.homoHandle.expired(); }
	static bool removeAt(T & o, int pos) { bool found; typename T::Handle h = handleAt(o, pos, found); return found ? removeHandle(o, h) : false; }
	static void trigger(T & o, int v) { o.dispatch(5, v); o.dispatch(5, std::string((size_t)v, 'x')); }
	static void preset(T &, unsigned) {}
	static bool hasAny(T & o) { return o.hasAnyListener(5); }
	static void enqueue(T & o, int v) { o.enqueue(5, v); }
	static bool process(T & o) { return o.process(); }
	static bool emptyQueue(T & o) { return o.emptyQueue(); }
	static bool waitFor0(T & o) { return o.waitFor(std::chrono::milliseconds(0)); }
	static void wait(T & o) { o.wait(); }
};

template <typename A, typename = void> struct CanInsert : std::false_type {};
template <typename A> struct CanInsert<A, typename std::enable_if<A::canInsert>::type> : std::true_type {};
template <typename A, typename = void> struct HasDqn : std::false_type {};
template <typename A> struct HasDqn<A, typename std::enable_if<A::hasDqn>::type> : std::true_type {};

// ------------------------------------------------------------------ harness
struct Cfg {
	int nSlots = 3;
	int K = 2;            // listeners per object
	int pattern = 0xFF;   // prior memory
	int preset = -1;      // >=0: generation counter of freshly default-constructed CallbackLists starts at UINT_MAX - preset
	bool nested = false;
	bool ledgerOnly = false;
};

template <typename A, bool Heter>
struct Harness : HarnessBase {
	typedef typename A::T T;
	Cfg cfg; Ctx & ctx;
	struct Storage { alignas(16) unsigned char bytes[sizeof(T)]; };
	Storage * store = nullptr;
	T * obj[3];
	struct M { std::vector<int> listeners; std::vector<int> filters; int pending; };
	M model[3];
	int nextId = 0;
	// observation of one trigger
	std::vector<int> seen; std::vector<int> seenFilters; int seenArg = 0;
	bool observing = false; int nestedFor = -1; bool nestedDone = false;

	Harness(Ctx & c, const Cfg & cf) : cfg(cf), ctx(c) {}
	void report(const std::string & clause, const std::string & msg) {
		if(cfg.ledgerOnly && clause.compare(0, 6, "ledger") != 0) { ctx.failed = true; return; }
		ctx.fail(clause, msg);
	}
	T * place(int i) { memset(store[i].bytes, cfg.pattern, sizeof(T)); return reinterpret_cast<T *>(store[i].bytes); }

	// listener ids of the int prototype come first in the observed order for heterogeneous containers
	std::vector<int> expectedOrder(const M & m) const {
		if(!Heter) return m.listeners;
		std::vector<int> r;
		for(int id : m.listeners) if(id % 2 == 0) r.push_back(id);
		for(int id : m.listeners) if(id % 2 == 1) r.push_back(id);
		return r;
	}

	void onCall(int id, int arg) override {
		if(!observing) { report("callback-outside-trigger", fmt("callback %d ran outside a trigger", id)); return; }
		seen.push_back(id); seenArg = arg;
		if(cfg.nested && nestedFor >= 0 && !nestedDone) {
			int i = nestedFor;
			int a = ctx.ex.choose(4, 1, K_PROG);
			if(a == 0) return;
			nestedDone = true;
			if(a == 1 && (int)model[i].listeners.size() < cfg.K + 1) { int nid = nextId++; nestedAdded = nid; ctx.log(fmt("  (inside #%d) add #%d to O%d", id, nid, i)); A::add(*obj[i], nid); model[i].listeners.push_back(nid); }
			else if(a == 2) {
				// remove the first callback in trigger order
				std::vector<int> ord = expectedOrder(model[i]);
				if(!ord.empty()) {
					bool r = A::removeAt(*obj[i], 0);
					ctx.log(fmt("  (inside #%d) removeAt(O%d,0) -> %d", id, i, (int)r));
					if(!r) report("remove-result", "removing the first callback from inside an invocation returned false");
					model[i].listeners.erase(std::find(model[i].listeners.begin(), model[i].listeners.end(), ord[0]));
					nestedRemoved = ord[0];
				}
			}
			else if(a == 3) {
				// nested trigger of the same object: same content rules
				std::vector<int> outer = seen; seen.clear();
				std::vector<int> expect = expectedOrder(model[i]);
				A::trigger(*obj[i], 3);
				if(seen != expect && !ctx.failed) report("nested-invocation-wrong", fmt("nested invocation on O%d called %s, expected %s", i, vec(seen).c_str(), vec(expect).c_str()));
				seen = outer;
			}
		}
	}
	int nestedRemoved = -1, nestedAdded = -1;
	bool onFilter(int fid, int & arg) override { seenFilters.push_back(fid); arg += 10; return true; }
	static std::string vec(const std::vector<int> & v) { std::string s = "["; for(int x : v) s += fmt("%d ", x); return s + "]"; }

	// trigger object i synchronously and compare with the model
	void verify(int i, const char * when) {
		if(!obj[i] || ctx.failed) return;
		seen.clear(); seenFilters.clear(); observing = true; nestedFor = -1;
		A::trigger(*obj[i], 3);
		observing = false;
		std::vector<int> expect = expectedOrder(model[i]);
		for(int x : seen) ctx.obs(500 + x);
		if(seen != expect) { report("content-differs", fmt("%s: O%d calls %s, the model holds %s", when, i, vec(seen).c_str(), vec(expect).c_str())); return; }
		std::vector<int> ef;
		for(int rep = 0; rep < (Heter ? 1 : 1); ++rep) for(int f : model[i].filters) ef.push_back(f);
		if(A::hasFilter && seenFilters != ef) report("filters-differ", fmt("%s: O%d ran filters %s, the model holds %s", when, i, vec(seenFilters).c_str(), vec(ef).c_str()));
		if(A::hasFilter && !expect.empty() && seenArg != 3 + 10 * (int)ef.size()) report("filters-differ", fmt("%s: O%d listeners saw argument %d, expected %d", when, i, seenArg, 3 + 10 * (int)ef.size()));
		if(A::hasAny(*obj[i]) != !model[i].listeners.empty()) report("hasany-differs", fmt("%s: O%d reports hasAny=%d with %zu listeners in the model", when, i, (int)A::hasAny(*obj[i]), model[i].listeners.size()));
		checkQueueEmpty(i, when, std::integral_constant<bool, A::isQueue>());
	}
	void checkQueueEmpty(int, const char *, std::false_type) {}
	void checkQueueEmpty(int i, const char * when, std::true_type) {
		bool e = A::emptyQueue(*obj[i]);
		if(e != (model[i].pending == 0)) { report(e ? "reported-empty-while-pending" : "never-empty", fmt("%s: O%d emptyQueue()=%d with %d events pending in the model", when, i, (int)e, model[i].pending)); return; }
		bool w = A::waitFor0(*obj[i]);
		if(w != (model[i].pending > 0)) report("waitfor-wrong", fmt("%s: O%d waitFor(0)=%d with %d events pending", when, i, (int)w, model[i].pending));
	}
	void verifyAll(const char * when) { for(int i = 0; i < cfg.nSlots; ++i) verify(i, when); }

	// after a move the source only has to be valid: adopt whatever it shows
	void resync(int i) {
		seen.clear(); seenFilters.clear(); observing = true; nestedFor = -1;
		A::trigger(*obj[i], 3);
		observing = false;
		model[i].listeners.clear();
		// keep model order = append order: for heterogeneous containers the int callbacks come first, which is also a valid append order
		for(int x : seen) model[i].listeners.push_back(x);
		model[i].filters = seenFilters;
	}

	// ---- operations
	void opDefault(int i) { ctx.log(fmt("O%d = default", i)); obj[i] = new (place(i)) T(); model[i] = M{{}, {}, 0}; if(cfg.preset >= 0) A::preset(*obj[i], UINT_MAX - (unsigned)cfg.preset); }
	void opDestroy(int i) { ctx.log(fmt("destroy O%d", i)); obj[i]->~T(); obj[i] = nullptr; model[i] = M{{}, {}, 0}; }
	void opCopyCtor(int i, int j) { ctx.log(fmt("O%d = copy-construct(O%d)", i, j)); obj[i] = new (place(i)) T(*obj[j]); model[i] = M{model[j].listeners, model[j].filters, 0}; }
	void opMoveCtor(int i, int j) { ctx.log(fmt("O%d = move-construct(O%d)", i, j)); obj[i] = new (place(i)) T(std::move(*obj[j])); model[i] = M{model[j].listeners, model[j].filters, 0}; resync(j); }
	// Self copy-assignment and self swap "change nothing": in particular the handles obtained BEFORE the call keep identifying
	// their listeners (a deep clone that replaced every node would leave the same listeners in the same order but orphan them)
	std::vector<typename T::Handle> handlesOf(int i) { std::vector<typename T::Handle> v; for(int p = 0; ; ++p) { bool found; typename T::Handle h = A::handleAt(*obj[i], p, found); if(!found) break; v.push_back(h); } return v; }
	void checkHandlesKept(int i, const std::vector<typename T::Handle> & before, const char * what) {
		for(size_t p = 0; p < before.size(); ++p) if(!A::handleAlive(before[p])) { report("self-operation-invalidated-handle", fmt("%s: the handle of the listener at position %zu of O%d, obtained before the call, has expired", what, p, i)); return; }
		std::vector<typename T::Handle> now = handlesOf(i);
		if(now.size() != before.size()) report("self-operation-invalidated-handle", fmt("%s: O%d enumerates %zu listeners, %zu before the call", what, i, now.size(), before.size()));
	}
	void opCopyAssign(int i, int j) {
		ctx.log(fmt("O%d = O%d (copy-assign)", i, j));
		std::vector<typename T::Handle> before; if(i == j) before = handlesOf(i);
		*obj[i] = *obj[j];
		if(i != j) { model[i].listeners = model[j].listeners; model[i].filters = model[j].filters; }
		else checkHandlesKept(i, before, "self copy-assignment");
	}
	// copy assignment (from another object or from itself) while a DisableQueueNotify of the destination is alive, an enqueue
	// inside the scope: the assignment concerns listeners, not the guard's counter - afterwards waiting and notification work
	// insert before the LAST listener: the newest node then sits in the middle of the chain (generation counters no longer grow
	// along the list), which is what copies, moves and swaps made afterwards have to cope with
	template <typename AA> void opInsertBeforeLast(int i, std::true_type) {
		int id = nextId++;
		int last = (int)model[i].listeners.size() - 1;
		bool found; typename T::Handle h = AA::handleAt(*obj[i], last, found);
		ctx.log(fmt("insert #%d into O%d before its last listener", id, i));
		AA::insertBefore(*obj[i], id, h);
		model[i].listeners.insert(model[i].listeners.end() - 1, id);
	}
	template <typename AA> void opInsertBeforeLast(int, std::false_type) {}
	template <typename AA> void opAssignUnderDqn(int i, int j, std::true_type) {
		ctx.log(fmt("{ DisableQueueNotify(O%d); O%d = O%d; enqueue on O%d }", i, i, j, i));
		AA::assignUnderDqn(*obj[i], *obj[j], 3);
		if(i != j) { model[i].listeners = model[j].listeners; model[i].filters = model[j].filters; }
		model[i].pending++;
	}
	template <typename AA> void opAssignUnderDqn(int, int, std::false_type) {}
	// self copy-assignment followed by a removal through a handle obtained before it
	void opSelfAssignThenRemove(int i) {
		std::vector<int> ord = expectedOrder(model[i]);
		bool found; typename T::Handle h = A::handleAt(*obj[i], 0, found);
		ctx.log(fmt("h = handle of O%d's first listener; O%d = O%d; remove(h)", i, i, i));
		T & self = *obj[i];
		*obj[i] = self;
		bool got = found ? A::removeHandle(*obj[i], h) : false;
		if(found && !ord.empty()) model[i].listeners.erase(std::find(model[i].listeners.begin(), model[i].listeners.end(), ord[0]));
		if(got != found) report("remove-result", fmt("after O%d = O%d, removing the first listener through the handle obtained before returned %d", i, i, (int)got));
	}
	void opMoveAssign(int i, int j) { ctx.log(fmt("O%d = move(O%d)", i, j)); *obj[i] = std::move(*obj[j]); model[i].listeners = model[j].listeners; model[i].filters = model[j].filters; resync(j); }
	void opSwapMember(int i, int j) { ctx.log(fmt("O%d.swap(O%d)", i, j)); std::vector<typename T::Handle> before; if(i == j) before = handlesOf(i); obj[i]->swap(*obj[j]); if(i == j) checkHandlesKept(i, before, "self swap"); if(i != j) { std::swap(model[i].listeners, model[j].listeners); adoptFilters(i); adoptFilters(j); } }
	void opSwapAdl(int i, int j) { ctx.log(fmt("swap(O%d,O%d)", i, j)); using std::swap; swap(*obj[i], *obj[j]); if(i != j) { std::swap(model[i].listeners, model[j].listeners); adoptFilters(i); adoptFilters(j); } }
	// The property promises that swap exchanges the listeners; whether filters travel differs between the member swap
	// (listener map only) and the move-based std::swap, so the model adopts what each object shows afterwards.
	void adoptFilters(int i) {
		if(!A::hasFilter) return;
		seen.clear(); seenFilters.clear(); observing = true; nestedFor = -1;
		A::trigger(*obj[i], 3);
		observing = false;
		model[i].filters = seenFilters;
	}
	void opAdd(int i) { int id = nextId++; ctx.log(fmt("add #%d to O%d", id, i)); A::add(*obj[i], id); model[i].listeners.push_back(id); }
	void opRemoveAt(int i, int pos) {
		std::vector<int> ord = expectedOrder(model[i]);
		bool expect = pos < (int)ord.size();
		bool got = A::removeAt(*obj[i], pos);
		ctx.log(fmt("removeAt(O%d,%d) -> %d", i, pos, (int)got)); ctx.tagStep(got ? "+r1" : "+r0");
		if(expect) model[i].listeners.erase(std::find(model[i].listeners.begin(), model[i].listeners.end(), ord[pos]));
		if(got != expect) report("remove-result", fmt("removing position %d of O%d returned %d, expected %d", pos, i, (int)got, (int)expect));
	}
	void opChurn(int i) { ctx.log(fmt("churn O%d", i)); for(int k = 0; k < 3; ++k) { A::add(*obj[i], 900 + 2 * k); A::removeAt(*obj[i], (int)expectedIndexOfNew(i)); } }
	size_t expectedIndexOfNew(int i) const {
		// where a freshly appended even-id (int prototype) callback sits in trigger order
		if(!Heter) return model[i].listeners.size();
		size_t n = 0; for(int id : model[i].listeners) if(id % 2 == 0) ++n; return n;
	}
	void opTriggerNested(int i) {
		ctx.log(fmt("trigger O%d (callbacks may act)", i));
		seen.clear(); seenFilters.clear(); observing = true; nestedFor = i; nestedDone = false; nestedRemoved = -1; nestedAdded = -1;
		std::vector<int> snapshot = expectedOrder(model[i]);
		A::trigger(*obj[i], 3);
		observing = false; nestedFor = -1;
		// expected: snapshot order; a callback removed before its turn is not called; added ones are not called.
		std::vector<int> expect;
		for(int id : snapshot) {
			bool removedBefore = (id == nestedRemoved) && std::find(seen.begin(), seen.end(), id) == seen.end();
			if(!removedBefore) expect.push_back(id);
		}
		if(Heter) {
			// two invocations (one per prototype): the removal may take effect for the second one
			std::vector<int> s2;
			for(int id : seen) if(std::find(s2.begin(), s2.end(), id) == s2.end()) s2.push_back(id);
			if(s2 != seen) { report("callback-called-twice", fmt("trigger of O%d called %s", i, vec(seen).c_str())); return; }
		}
		// C19's relaxation: with the generation counter about to wrap, an invocation in progress at the wrap may also call the callback added during it
		if(cfg.preset >= 0 && nestedAdded >= 0 && seen.size() == expect.size() + 1 && seen.back() == nestedAdded) expect.push_back(nestedAdded);
		if(seen != expect && !ctx.failed) report("nested-rules-broken", fmt("trigger of O%d with an acting callback called %s, expected %s", i, vec(seen).c_str(), vec(expect).c_str()));
	}
	void opEnqueue(int i, std::true_type) { ctx.log(fmt("enqueue on O%d", i)); A::enqueue(*obj[i], 3); model[i].pending++; }
	void opEnqueue(int, std::false_type) {}
	void opProcess(int i, std::true_type) {
		seen.clear(); seenFilters.clear(); observing = true; nestedFor = -1;
		bool r = A::process(*obj[i]);
		observing = false;
		ctx.log(fmt("process O%d -> %d", i, (int)r));
		std::vector<int> once = Heter ? std::vector<int>() : model[i].listeners, expect;
		if(Heter) for(int id : model[i].listeners) if(id % 2 == 0) once.push_back(id);   // only int events are enqueued
		for(int k = 0; k < model[i].pending; ++k) for(int id : once) expect.push_back(id);
		if(r != (model[i].pending > 0)) report("process-result", fmt("process() on O%d returned %d with %d events pending", i, (int)r, model[i].pending));
		else if(seen != expect) report("process-dispatch", fmt("process() on O%d called %s, expected %s", i, vec(seen).c_str(), vec(expect).c_str()));
		model[i].pending = 0;
	}
	void opProcess(int, std::false_type) {}
	void opWait(int i, std::true_type) { if(model[i].pending > 0) { ctx.log(fmt("wait on O%d", i)); A::wait(*obj[i]); } }
	void opWait(int, std::false_type) {}
	template <typename AA> void opFilter(int i, std::true_type) { int id = nextId++; ctx.log(fmt("appendFilter F%d on O%d", id, i)); AA::addFilter(*obj[i], Flt(id)); model[i].filters.push_back(id); }
	template <typename AA> void opFilter(int, std::false_type) {}

	// ---- alphabet
	int menu() const { int n = cfg.nSlots; return n + n + n * n + n * n + n * n + n * n + n * n + n * n + n + 2 * n + n + n + 1 + 2 + n + (A::isQueue ? 3 * n : 0) + (A::hasFilter ? n : 0); }
	void topOp(Bfs & b, int op) {
		int n = cfg.nSlots;
		if(op < n) { if(obj[op]) b.skip(); opDefault(op); return; } op -= n;
		if(op < n) { if(!obj[op]) b.skip(); opDestroy(op); return; } op -= n;
		for(int kind = 0; kind < 6; ++kind) {
			if(op < n * n) {
				int i = op / n, j = op % n;
				switch(kind) {
				case 0: if(obj[i] || !obj[j]) b.skip(); opCopyCtor(i, j); break;
				case 1: if(obj[i] || !obj[j]) b.skip(); opMoveCtor(i, j); break;
				case 2: if(!obj[i] || !obj[j]) b.skip(); opCopyAssign(i, j); break;
				case 3: if(!obj[i] || !obj[j] || i == j) b.skip(); opMoveAssign(i, j); break;
				case 4: if(!obj[i] || !obj[j] || i > j) b.skip(); opSwapMember(i, j); break;
				case 5: if(!obj[i] || !obj[j] || i > j) b.skip(); opSwapAdl(i, j); break;
				}
				return;
			}
			op -= n * n;
		}
		if(op < n) { if(!obj[op] || (int)model[op].listeners.size() >= cfg.K) b.skip(); opAdd(op); return; } op -= n;
		if(op < 2 * n) { int i = op / 2; if(!obj[i]) b.skip(); opRemoveAt(i, op % 2); return; } op -= 2 * n;
		if(op < n) { if(!obj[op]) b.skip(); opChurn(op); return; } op -= n;
		if(op < n) { if(!obj[op] || !cfg.nested || Heter || model[op].listeners.empty()) b.skip(); opTriggerNested(op); return; } op -= n;
		if(op < 1) { if(!obj[0] || model[0].listeners.empty()) b.skip(); opSelfAssignThenRemove(0); return; } op -= 1;
		if(op < 2) { if(!HasDqn<A>::value || !obj[0] || !obj[op] || model[0].pending >= 2) b.skip(); opAssignUnderDqn<A>(0, op, HasDqn<A>()); return; } op -= 2;
		if(op < n) { if(!CanInsert<A>::value || !obj[op] || model[op].listeners.empty() || (int)model[op].listeners.size() > cfg.K) b.skip(); opInsertBeforeLast<A>(op, CanInsert<A>()); return; } op -= n;
		if(A::isQueue) {
			if(op < n) { if(!obj[op] || model[op].pending >= 2) b.skip(); opEnqueue(op, std::integral_constant<bool, A::isQueue>()); return; } op -= n;
			if(op < n) { if(!obj[op]) b.skip(); opProcess(op, std::integral_constant<bool, A::isQueue>()); return; } op -= n;
			if(op < n) { if(!obj[op] || model[op].pending == 0) b.skip(); opWait(op, std::integral_constant<bool, A::isQueue>()); return; } op -= n;
		}
		if(A::hasFilter) { if(!obj[op] || model[op].filters.size() >= 2) b.skip(); opFilter<A>(op, std::integral_constant<bool, A::hasFilter>()); return; }
	}

	std::string key() {
		// canonical up to renaming of listener ids: identity classes by first appearance
		std::map<int, int> ren; std::string k;
		for(int i = 0; i < cfg.nSlots; ++i) {
			if(!obj[i]) { k += "-|"; continue; }
			k += "o:";
			for(int id : model[i].listeners) { auto it = ren.find(id); if(it == ren.end()) it = ren.insert(std::make_pair(id, (int)ren.size())).first; k += fmt("%d%s,", it->second, Heter ? (id % 2 ? "s" : "i") : ""); }
			k += fmt(";f%zu;p%d|", model[i].filters.size(), model[i].pending);
		}
		k += fmt("n%d", Heter ? nextId % 2 : 0);
		return k;
	}

	void quiescent() {
		checkLedgerErrors(ctx, "quiescent");
		if(ctx.failed) return;
		std::map<int, int> want;
		for(int i = 0; i < cfg.nSlots; ++i) if(obj[i]) for(int id : model[i].listeners) want[id]++;
		int total = 0;
		for(auto & kv : want) {
			total += kv.second;
			int have = ledger().liveCount(TC_CALLBACK, kv.first);
			if(have != kv.second) { ctx.fail(have > kv.second ? "ledger-callback-not-released" : "ledger-callback-missing", fmt("callback %d has %d live copies, the containers hold %d", kv.first, have, kv.second)); return; }
		}
		int have = ledger().liveTotal(TC_CALLBACK, false);
		if(have != total) ctx.fail("ledger-callback-not-released", fmt("%d callback objects alive, the containers hold %d: %s", have, total, ledger().describeLive().c_str()));
	}

	void body(Bfs & b) {
		ledger().reset();
		g_h = this;
		std::vector<Storage> st(3);
		store = st.data();
		for(int i = 0; i < 3; ++i) { obj[i] = nullptr; model[i] = M{{}, {}, 0}; }
		nextId = 0;
		struct Cleanup { Harness * h; ~Cleanup() { for(int i = 0; i < 3; ++i) if(h->obj[i]) { h->obj[i]->~T(); h->obj[i] = nullptr; } } } cl{this};
		b.stepEnd(key());
		for(;;) {
			int op = b.chooseOp(menu());
			topOp(b, op);
			verifyAll("after the operation");
			quiescent();
			b.stepEnd(key());
		}
	}
	void after() {
		checkLedgerErrors(ctx, "after destruction");
		if(ledger().liveAll() != 0 && !ctx.failed) ctx.fail("ledger-leak-after-destruction", "objects still alive after every container was destroyed: " + ledger().describeLive());
	}
};

template <typename A, bool Heter>
static void addUnit(const std::string & name, int minTier, Cfg cfg, int dq, int dt, int bq, int bt) {
	Unit u; u.name = name; u.minTier = minTier;
	u.run = [=](Ctx & ctx, UnitReport & rep, int tier) {
		Harness<A, Heter> h(ctx, cfg);
		BfsOptions o; o.keyIncludesLastOp = true; o.maxDepth = tier ? dt : dq; o.innerBudget = tier ? bt : bq;
		Bfs b(ctx, o);
		b.run([&](Bfs & bb) { h.body(bb); }, [&]() { h.after(); });
		fillBfsReport(rep, b.res);
		rep.str["config"] = fmt("%s pool=%d K=%d prior-memory=0x%02X preset=%d nested=%d depth=%d", A::name(), cfg.nSlots, cfg.K, cfg.pattern, cfg.preset, (int)cfg.nested, o.maxDepth);
	};
	u.replay = [=](Ctx & ctx, const std::vector<int> & seq) {
		Harness<A, Heter> h(ctx, cfg);
		replayBody(ctx, seq, [&](Bfs & bb) { h.body(bb); }, [&]() { h.after(); });
	};
	units().push_back(u);
}

#ifndef VERIF_SUB
#define VERIF_SUB -1
#endif
#define SEL(s) (VERIF_SUB < 0 || VERIF_SUB == (s))
using ST = eventpp::SingleThreading;
using MT = eventpp::MultipleThreading;

#ifndef VERIF_PREFIX
#define VERIF_PREFIX "C10"
#endif

typedef eventpp::GeneralThreading<eventpp::SpinLock, std::atomic, std::condition_variable_any> SpinT;
// thorough depth: 8 for C10/C08/C19; 6 when the same units run under all 16 build variants for C20 (each variant repeats the search)
#ifdef VERIF_ALLPATTERNS
#define POOL_DT 6
#else
#define POOL_DT 8
#endif
static struct Register {
	Register() {
		const int patterns[] = {0xFF, 0x00, 0xA5};
		for(int pi = 0; pi < 3; ++pi) {
			Cfg c; c.pattern = patterns[pi]; c.nested = true;
#ifdef VERIF_ALLPATTERNS
			int mt = 0;
#else
			int mt = pi == 0 ? 0 : 1;          // quick: 0xFF only (the pattern that makes garbage counters non-zero); thorough: all three
#endif
			std::string sfx = fmt("/mem%02X", patterns[pi]);
#if SEL(0)
			addUnit<ACallbackList<ST>, false>(VERIF_PREFIX "/CallbackList/single" + sfx, mt, c, 5, POOL_DT, 1, 1);
			addUnit<ACallbackList<MT>, false>(VERIF_PREFIX "/CallbackList/multi" + sfx, mt, c, 5, POOL_DT, 1, 1);
#endif
#if SEL(1)
			addUnit<ADispatcher<ST>, false>(VERIF_PREFIX "/EventDispatcher/single" + sfx, mt, c, 5, POOL_DT, 1, 1);
			addUnit<ADispatcherF<MT>, false>(VERIF_PREFIX "/EventDispatcher+filter/multi" + sfx, mt, c, 5, POOL_DT, 1, 1);
#endif
#if SEL(2)
			addUnit<AQueue<MT>, false>(VERIF_PREFIX "/EventQueue/multi" + sfx, mt, c, 5, POOL_DT, 1, 1);
			// SpinLock as the mutex: its flag has to be initialised by every constructor of every object that embeds one
			addUnit<AQueue<SpinT>, false>(VERIF_PREFIX "/EventQueue/spinlock" + sfx, mt, c, 5, POOL_DT, 1, 1);
#endif
#if SEL(3)
			addUnit<AQueue<VThreading>, false>(VERIF_PREFIX "/EventQueue/vthreading" + sfx, mt, c, 5, POOL_DT, 1, 1);
			addUnit<AQueue<MT, PF<MT> >, false>(VERIF_PREFIX "/EventQueue+filter/multi" + sfx, 1, c, 5, POOL_DT, 1, 1);
#endif
#if SEL(4)
			addUnit<AHeterList<MT>, true>(VERIF_PREFIX "/HeterCallbackList/multi" + sfx, mt, c, 5, POOL_DT, 1, 1);
			addUnit<AHeterDispatcher<ST>, true>(VERIF_PREFIX "/HeterEventDispatcher/single" + sfx, mt, c, 5, POOL_DT, 1, 1);
#endif
#if SEL(5)
			addUnit<AHeterQueue<MT>, true>(VERIF_PREFIX "/HeterEventQueue/multi" + sfx, mt, c, 5, POOL_DT, 1, 1);
			addUnit<AHeterQueue<SpinT>, true>(VERIF_PREFIX "/HeterEventQueue/spinlock" + sfx, 1, c, 5, POOL_DT, 1, 1);
#endif
		}
#if SEL(0)
		// generation counters on different sides of the wrap (C19's extreme, copies/moves/swaps between such lists)
#ifdef VERIF_NEARWRAP_ALL
		for(int p = 0; p <= 4; ++p) { Cfg c; c.preset = p; c.nested = true; addUnit<ACallbackList<ST>, false>(fmt(VERIF_PREFIX "/CallbackList/single/near-wrap%d", p), 0, c, 5, POOL_DT, 1, 1); }
		for(int p = 0; p <= 4; p += 2) { Cfg c; c.preset = p; c.nested = true; addUnit<ACallbackList<MT>, false>(fmt(VERIF_PREFIX "/CallbackList/multi/near-wrap%d", p), 1, c, 5, POOL_DT, 1, 1); }
#else
		for(int p = 0; p <= 2; ++p) { Cfg c; c.preset = p; c.nested = true; addUnit<ACallbackList<ST>, false>(fmt(VERIF_PREFIX "/CallbackList/single/near-wrap%d", p), p == 1 ? 0 : 1, c, 5, POOL_DT, 1, 1); }
#endif
#endif
	}
} reg;

VERIF_MAIN("pool")
