// Engine S, stateful mode: ALL interleavings (no preemption bound) of small EventQueue thread configurations.
// The DFS is pruned by a visited set over global states (queue internals + per-thread control state, captured as
// "operation index + hash of everything the thread observed from shared state since the operation began" + the
// oracle's own state). Every oracle used here is a function of that state, so pruning is sound:
//   C07  lost wake-up at terminal states; wait() returning with a DisableQueueNotify alive during the whole call;
//        wait()/waitFor() returning without ever having been able to observe a non-empty queue with notification enabled
//   C06  exactly-once consumption, nothing lost once drained, no deadlock
//   C11  emptyQueue()==true although an event whose enqueue had returned is not consumed
#define VERIF_DEFINE_HOOKS
#include "../fw/core.h"
#include "../fw/ledger.h"
#include "../fw/sched.h"
#include <eventpp/eventqueue.h>
#include <eventpp/hetereventqueue.h>

using namespace verif;

// VERIF_HETER: the same units over HeterEventQueue. Its pending/free lists are plain std::list (no QueueList policy), so
// what a thread reads from them is not returned through the injected policies; as in the C03 stateful units the hash of the
// whole shared structure is mixed into the running thread's observation hash at every scheduling point instead.
#ifdef VERIF_HETER
struct QPol {
	using Threading = VThreading;
};
using Q = eventpp::HeterEventQueue<int, eventpp::HeterTuple<void(const Tracked &), void(int)>, QPol>;
static uint64_t heterListHash(const Q::BufferedItemList & l) {
	uint64_t h = 0x51;
	for(auto & x : l) h = mix64(h, x.empty() ? 0x1eULL : 0x100ULL + (uint64_t)std::get<0>(x.get<Q::QueuedItem<std::tuple<Tracked> > >().arguments).id);
	return h;
}
#else
struct QPol {
	using Threading = VThreading;
	template <typename T> using QueueList = VList<T>;
};
using Q = eventpp::EventQueue<int, void(const Tracked &), QPol>;
typedef eventpp::internal_::BufferedItem<Q::QueuedEvent> QItem;
namespace verif {
template <> struct VListItemHash<QItem> { static uint64_t of(const QItem & x) { return x.empty() ? 0x1eULL : 0x100ULL + (uint64_t)std::get<0>(x.get().arguments).id; } };
}
#endif

enum OpKind { O_ENQ, O_DQN_ENQ, O_DQN_ONLY, O_DQN2, O_PROCESS, O_PROCESS_ONE, O_TAKE, O_CLEAR, O_WAIT_PROCESS, O_WAIT_DRAIN, O_WAITFOR_PROCESS, O_EMPTY, O_PROCESS_IF_ODD, O_PROCESS_UNTIL_EVEN };
static const char * opName(int k) {
	static const char * n[] = {"enqueue", "{DQN;enqueue}", "{DQN}", "{DQN;{DQN;enqueue}enqueue}", "process", "processOne", "takeEvent", "clearEvents", "wait;process", "wait;drain", "waitFor;process", "emptyQueue", "processIf(odd)", "processUntil(even)"};
	return n[k];
}
static int enqueuesOf(int k) { return k == O_ENQ || k == O_DQN_ENQ ? 1 : (k == O_DQN2 ? 2 : 0); }

typedef std::vector<int> Prog;
struct Config {
	std::vector<Prog> threads;
	std::string name() const {
		std::string s;
		for(size_t t = 0; t < threads.size(); ++t) { s += fmt("%sT%zu[", t ? " || " : "", t + 1); for(size_t i = 0; i < threads[t].size(); ++i) s += std::string(i ? "; " : "") + opName(threads[t][i]); s += "]"; }
		return s;
	}
	bool has(int k) const { for(auto & t : threads) for(int o : t) if(o == k) return true; return false; }
};

struct Run {
	Ctx & ctx; const Config & cfg; Q * q = nullptr;
	enum EvSt { E_NONE = 0, E_ENQUEUING = 1, E_QUEUED = 2, E_IN_DISPATCH = 3, E_CONSUMED = 4 };
	struct Ev { int id; int st; bool enqReturned; int producer; int consumer; };
	std::vector<Ev> evs;
	std::vector<std::vector<int> > idsOfThread;
	// per-thread oracle state (part of the global state)
	struct TS {
		int inCall;              // kind of library call in progress (-1 none)
		uint32_t emptyMask;      // C11: events whose enqueue had returned when the emptyQueue call began
		uint32_t dqnMask;        // C07b: DisableQueueNotify objects alive since the wait began and never destroyed since
		bool putBackSeen;        // C11: a processIf/processUntil call was in progress at some moment of this emptyQueue call
		bool justified;          // C07c: at some moment of the wait an event (or a processing call in flight) was observable with notification enabled
		int nextEnq;
	};
	std::vector<TS> ts;
	uint32_t dqnAlive = 0; int dqnCount = 0;     // bit i: DQN object i is definitely alive (constructor done, destructor not started)
	int procInFlight = 0;
	Run(Ctx & c, const Config & cf) : ctx(c), cfg(cf) {}
	int me() const { VThread * m = Sched::me(); return m ? m->id : 0; }

	bool observable() const {
		if(dqnAlive) return false;
		if(procInFlight > 0) return true;
		for(auto & e : evs) if(e.st == E_ENQUEUING || e.st == E_QUEUED || e.st == E_IN_DISPATCH) return true;
		return false;
	}
	// called after every change of the oracle state: waits in progress accumulate their justification
	void updateWaits() { bool ob = observable(); if(ob) for(auto & t : ts) if(t.inCall == O_WAIT_PROCESS || t.inCall == O_WAITFOR_PROCESS) t.justified = true; }

	// C06 order clause: events enqueued by one thread and consumed by one thread are consumed in enqueue order.
	// (A function of the state: producer, consumer and status of every event are part of the key.)
	void consumedBy(Ev & e, int thread) {
		e.consumer = thread;
		for(auto & o : evs) if(o.producer == e.producer && o.id > e.id && o.consumer == thread && (o.st == E_CONSUMED || o.st == E_IN_DISPATCH))
			ctx.fail("order-violated", fmt("thread %d consumed event %d before event %d although thread %d enqueued them in the opposite order", thread, o.id, e.id, e.producer));
	}
	void listener(const Tracked & t) {
		if(t.id < 1 || t.id > (int)evs.size() || !t.intact()) { ctx.fail("payload-corrupt", fmt("listener received a damaged event (payload id %d)", t.id)); return; }
		Ev & e = evs[t.id - 1];
		if(ctx.wantLog()) ctx.log(fmt("T%d: listener gets event %d", me(), t.id));
		if(e.st == E_CONSUMED || e.st == E_IN_DISPATCH) ctx.fail("event-duplicated", fmt("event %d dispatched a second time", t.id));
		if(e.st == E_NONE) ctx.fail("event-from-nowhere", fmt("event %d dispatched before it was enqueued", t.id));
		e.st = E_IN_DISPATCH;
		consumedBy(e, me());
		bool em = q->emptyQueue();
		if(em) ctx.fail("empty-inside-listener", fmt("emptyQueue() returned true from inside the listener handling event %d", t.id));
		e.st = E_CONSUMED;
		updateWaits();
	}
	void doEnqueue(int thread) {
		int id = idsOfThread[thread][ts[thread].nextEnq++];
		Ev & e = evs[id - 1];
		e.st = E_ENQUEUING; updateWaits();
		if(ctx.wantLog()) ctx.log(fmt("T%d: enqueue(%d)", thread, id));
		q->enqueue(1, Tracked(id));
		if(e.st == E_ENQUEUING) e.st = E_QUEUED;
		e.enqReturned = true;
	}
#ifndef VERIF_HETER
	struct Dqn {   // RAII around DisableQueueNotify that keeps the oracle's view: definitely alive between constructor end and destructor start
		Run * r; int bit; Q::DisableQueueNotify d;
		Dqn(Run * r_) : r(r_), bit(r_->dqnCount++), d(r_->q) { r->dqnAlive |= 1u << bit; }
		~Dqn() { r->dqnAlive &= ~(1u << bit); for(auto & t : r->ts) t.dqnMask &= ~(1u << bit); r->updateWaits(); }
	};
#endif
	struct InCall {
		Run * r; int thread;
		InCall(Run * r_, int t, int k) : r(r_), thread(t) {
			r->ts[t].inCall = k;
			if(k == O_PROCESS_IF_ODD || k == O_PROCESS_UNTIL_EVEN) for(auto & x : r->ts) if(x.inCall == O_EMPTY) x.putBackSeen = true;
			if(k == O_EMPTY) { r->ts[t].putBackSeen = false; for(auto & x : r->ts) if(x.inCall == O_PROCESS_IF_ODD || x.inCall == O_PROCESS_UNTIL_EVEN) r->ts[t].putBackSeen = true; }
		}
		~InCall() { r->ts[thread].inCall = -1; }
	};
	struct ProcFlight { Run * r; ProcFlight(Run * r_) : r(r_) { ++r->procInFlight; r->updateWaits(); } ~ProcFlight() { --r->procInFlight; } };

	void op(int thread, int k) {
		switch(k) {
		case O_ENQ: doEnqueue(thread); break;
#ifndef VERIF_HETER
		case O_DQN_ENQ: { Dqn d(this); doEnqueue(thread); break; }
		case O_DQN_ONLY: { Dqn d(this); break; }
		case O_DQN2: { Dqn a(this); { Dqn b(this); doEnqueue(thread); } doEnqueue(thread); break; }
#else
		case O_DQN_ENQ: case O_DQN_ONLY: case O_DQN2: case O_TAKE: break;   // HeterEventQueue has neither DisableQueueNotify nor takeEvent; such configurations are not generated
#endif
#ifndef VERIF_HETER
		case O_PROCESS_UNTIL_EVEN: {
			InCall ic(this, thread, k); ProcFlight pf(this);
			bool r = q->processUntil([](const Tracked & t) { return t.id % 2 == 0; });
			if(ctx.wantLog()) ctx.log(fmt("T%d: %s -> %d", thread, opName(k), (int)r));
			break;
		}
#else
		case O_PROCESS_UNTIL_EVEN: break;
#endif
		case O_PROCESS: case O_PROCESS_ONE: case O_PROCESS_IF_ODD: {
			InCall ic(this, thread, k); ProcFlight pf(this);
			bool r = k == O_PROCESS ? q->process() : k == O_PROCESS_ONE ? q->processOne() : q->processIf([](const Tracked & t) { return t.id % 2 == 1; });
			if(ctx.wantLog()) ctx.log(fmt("T%d: %s -> %d", thread, opName(k), (int)r));
			break;
		}
#ifndef VERIF_HETER
		case O_TAKE: {
			InCall ic(this, thread, k);
			Q::QueuedEvent qe;
			bool r = q->takeEvent(&qe);
			if(r) {
				const Tracked & t = std::get<0>(qe.arguments);
				if(t.id < 1 || t.id > (int)evs.size() || !t.intact()) ctx.fail("payload-corrupt", "takeEvent handed out a damaged event");
				else { Ev & e = evs[t.id - 1]; if(e.st == E_CONSUMED || e.st == E_IN_DISPATCH) ctx.fail("event-duplicated", fmt("event %d taken although already consumed", t.id)); if(e.st == E_NONE) ctx.fail("event-from-nowhere", "takeEvent handed out an event that was never enqueued"); e.st = E_CONSUMED; consumedBy(e, thread); updateWaits(); }
			}
			if(ctx.wantLog()) ctx.log(fmt("T%d: takeEvent -> %d", thread, (int)r));
			break;
		}
#endif
		case O_CLEAR: { InCall ic(this, thread, k); q->clearEvents(); if(ctx.wantLog()) ctx.log(fmt("T%d: clearEvents", thread)); break; }
		case O_WAIT_PROCESS: case O_WAIT_DRAIN: {
			{
				InCall ic(this, thread, O_WAIT_PROCESS);
				ts[thread].dqnMask = dqnAlive; ts[thread].justified = false; updateWaits();
				if(ctx.wantLog()) ctx.log(fmt("T%d: wait() ...", thread));
				q->wait();
				if(ctx.wantLog()) ctx.log(fmt("T%d: wait() returned", thread));
				if(ts[thread].dqnMask) ctx.fail("wait-returned-under-disablenotify", fmt("wait() on thread %d returned although a DisableQueueNotify object was alive during the whole call", thread));
				if(!ts[thread].justified) ctx.fail("wait-returned-without-event", fmt("wait() on thread %d returned although at no moment of the call a non-empty queue with notification enabled could be observed", thread));
				ts[thread].dqnMask = 0; ts[thread].justified = false;
			}
			if(k == O_WAIT_PROCESS) op(thread, O_PROCESS);
			else for(int i = 0; i < 3 && !q->emptyQueue(); ++i) op(thread, O_PROCESS);
			break;
		}
		case O_WAITFOR_PROCESS: {
			bool r;
			{
				InCall ic(this, thread, O_WAITFOR_PROCESS);
				ts[thread].dqnMask = dqnAlive; ts[thread].justified = false; updateWaits();
				VThread * m = Sched::me(); if(m) m->timedOut = false;
				r = q->waitFor(std::chrono::milliseconds(10));
				if(ctx.wantLog()) ctx.log(fmt("T%d: waitFor -> %d", thread, (int)r));
				if(r && ts[thread].dqnMask) ctx.fail("wait-returned-under-disablenotify", fmt("waitFor() on thread %d returned true although a DisableQueueNotify object was alive during the whole call", thread));
				if(r && !ts[thread].justified) ctx.fail("wait-returned-without-event", fmt("waitFor() on thread %d returned true although at no moment of the call a non-empty queue with notification enabled could be observed", thread));
				if(!r && !(m && m->timedOut)) ctx.fail("waitfor-false-without-timeout", fmt("waitFor on thread %d returned false although its timeout never elapsed", thread));
				ts[thread].dqnMask = 0; ts[thread].justified = false;
			}
			if(r) op(thread, O_PROCESS);
			break;
		}
		case O_EMPTY: {
			InCall ic(this, thread, k);
			uint32_t mask = 0; for(auto & e : evs) if(e.enqReturned) mask |= 1u << (e.id - 1);
			ts[thread].emptyMask = mask;
			bool r = q->emptyQueue();
			if(ctx.wantLog()) ctx.log(fmt("T%d: emptyQueue() -> %d", thread, (int)r));
			if(r) {
				bool takeOrClearInFlight = false, putBackInFlight = ts[thread].putBackSeen;
				for(auto & t : ts) { if(t.inCall == O_TAKE || t.inCall == O_CLEAR) takeOrClearInFlight = true; if(t.inCall == O_PROCESS_IF_ODD || t.inCall == O_PROCESS_UNTIL_EVEN) putBackInFlight = true; }
				for(auto & e : evs) if((ts[thread].emptyMask >> (e.id - 1)) & 1u) {
					if(e.st == E_CONSUMED) continue;
					if(takeOrClearInFlight && e.st == E_QUEUED) continue;   // may be in the hands of that call (orientation: weaker)
					// the recorded (open) defect needs the claim to span the put-back, so the event is back in the pending list when the
					// call returns; a claim made while the event is still held in the processing call's private list is another history
					ctx.fail(putBackInFlight && !inPending(e.id) ? "reported-empty-while-declined-event-still-held" : putBackInFlight ? "reported-empty-while-declined-event-put-back" : "reported-empty-while-pending",
						fmt("emptyQueue on thread %d reported an empty queue although event %d, whose enqueue had returned before the call began, was %s", thread, e.id, e.st == E_IN_DISPATCH ? "still being dispatched" : "still pending"));
				}
			}
			ts[thread].emptyMask = 0; ts[thread].putBackSeen = false;
			break;
		}
		}
	}
	bool inPending(int id) {
		HarnessScope hs;
#ifdef VERIF_HETER
		for(auto & x : q->queueList) if(!x.empty() && std::get<0>(x.get<Q::QueuedItem<std::tuple<Tracked> > >().arguments).id == id) return true;
#else
		for(auto & x : q->queueList.l) if(!x.empty() && std::get<0>(x.get().arguments).id == id) return true;
#endif
		return false;
	}
	void runThread(int thread) {
		int i = 0;
		for(int k : cfg.threads[thread - 1]) { sched().opBegin(++i); op(thread, k); }
		sched().opBegin(1000);
	}

	// ---- the global state (two independent 64-bit hashes)
	void stateHash(uint64_t & a, uint64_t & b) {
		HarnessScope hs;
		uint64_t h = sched().threadsHash();
		h = mix64(h, (uint64_t)(q->queueEmptyCounter.value + 5)); h = mix64(h, (uint64_t)(q->queueNotifyCounter.value + 5));
		h = mix64(h, (uint64_t)(q->queueListMutex.owner + 2)); h = mix64(h, (uint64_t)(q->freeListMutex.owner + 2)); h = mix64(h, (uint64_t)(q->listenerMutex.owner + 2));
		auto it = q->eventCallbackListMap.find(1);
#ifdef VERIF_HETER
		if(it != q->eventCallbackListMap.end()) {
			h = mix64(h, (uint64_t)(it->second.callbackListListMutex.owner + 2));
			// the per-prototype lists inside always use std::mutex (UnderlyingPoliciesType_ is empty) and live on the heap, outside
			// the shared range: no scheduling point falls inside their critical sections, so their mutexes are never held here
		}
#else
		if(it != q->eventCallbackListMap.end()) h = mix64(h, (uint64_t)(it->second.mutex.owner + 2));
#endif
#ifdef VERIF_HETER
		h = mix64(h, heterListHash(q->queueList)); h = mix64(h, (uint64_t)q->freeList.size());
#else
		h = mix64(h, q->queueList.rawContentHash()); h = mix64(h, (uint64_t)q->freeList.rawSize());
#endif
		for(VThread * w : q->queueListConditionVariable.waiters) h = mix64(h, (uint64_t)w->id + 100);
		for(auto & e : evs) h = mix64(h, (uint64_t)e.st * 2 + (e.enqReturned ? 1 : 0) + (uint64_t)e.consumer * 64);
		for(auto & t : ts) { h = mix64(h, (uint64_t)(t.inCall + 2)); h = mix64(h, t.emptyMask); h = mix64(h, t.dqnMask); h = mix64(h, (uint64_t)t.justified * 2 + 1 + (t.putBackSeen ? 8 : 0)); h = mix64(h, (uint64_t)t.nextEnq); }
		h = mix64(h, dqnAlive); h = mix64(h, (uint64_t)dqnCount); h = mix64(h, (uint64_t)procInFlight); h = mix64(h, ctx.failed ? 1 : 0);
		a = h; b = mix64(h ^ 0xa5a5a5a5deadbeefULL, h >> 7);
	}

	void run() {
		ledger().reset();
		trackObjectsForRaces();
		idsOfThread.assign(cfg.threads.size() + 1, std::vector<int>());
		int id = 0;
		for(size_t t = 0; t < cfg.threads.size(); ++t) for(int k : cfg.threads[t]) for(int i = 0; i < enqueuesOf(k); ++i) { ++id; idsOfThread[t + 1].push_back(id); evs.push_back(Ev{id, E_NONE, false, (int)t + 1, 0}); }
		ts.assign(cfg.threads.size() + 1, TS{-1, 0, 0, false, false, 0});
		ledger().onDeath = [this](int cls, int pid, bool moved, int copyDepth) {
			if(cls == TC_PAYLOAD && !moved && copyDepth == 0 && pid >= 1 && pid <= (int)evs.size()) {
				Ev & e = evs[pid - 1];
				if(e.st == E_QUEUED || e.st == E_ENQUEUING) {
					// destroyed undelivered: legitimate only while some thread is inside clearEvents
					bool clearing = false; for(auto & t : ts) if(t.inCall == O_CLEAR) clearing = true;
					if(!clearing && sched().active && !sched().aborting) ctx.fail("event-lost", fmt("event %d was destroyed undelivered outside any clearEvents call", pid));
					e.st = E_CONSUMED; updateWaits();
				}
			}
		};
		Sched & s = sched();
		s.begin();
		bool aborted = false;
		{
			Q queue; q = &queue;
			s.addSharedRange(&queue, sizeof queue);
			queue.appendListener(1, [this](const Tracked & t) { listener(t); });
			s.stateHash = [this](uint64_t & a, uint64_t & b) { stateHash(a, b); };
#ifdef VERIF_HETER
			s.sharedHash = [this]() { HarnessScope hs; return mix64(heterListHash(q->queueList), (uint64_t)q->freeList.size() * 4 + 1); };
#endif
			try {
				for(size_t t = 0; t < cfg.threads.size(); ++t) { int tn = (int)t + 1; s.spawn([this, tn]() { runThread(tn); }); }
				s.joinAll();
				s.stateHash = nullptr; s.sharedHash = nullptr;      // the sequential epilogue is not explored
				for(int i = 0; i < 6; ++i) { ProcFlight pf(this); if(!queue.process()) break; }
				if(!queue.emptyQueue() && !ctx.failed) ctx.fail("not-empty-after-drain", "emptyQueue() is false after all threads finished and process() returned false");
			}
			catch(SchedAbort &) { aborted = true; }
			s.stateHash = nullptr; s.sharedHash = nullptr;
			s.end();
			ledger().onDeath = nullptr;
			if(aborted && !s.pruned) {
				if(s.deadlock.happened) {
					bool nonWaiter = false; int waiters = 0;
					for(size_t i = 0; i < s.deadlock.blockedIds.size(); ++i) { if(s.deadlock.blockedIds[i] == 0) continue; if(s.deadlock.blockedStates[i] == T_WAIT_CV) ++waiters; else nonWaiter = true; }
					int pending = 0; std::string pend;
					for(auto & e : evs) if(e.enqReturned && (e.st == E_QUEUED)) { ++pending; pend += fmt(" %d", e.id); }
					if(nonWaiter) ctx.fail("deadlock", "threads are blocked for ever on a mutex or spin lock");
					else if(waiters > 0 && pending > 0 && dqnAlive == 0 && dqnCountAliveIncludingPartial() == 0)
						ctx.fail("lost-wakeup", fmt("%d thread(s) blocked in wait() for ever while event(s)%s are pending, no DisableQueueNotify is alive and no other thread can run", waiters, pend.c_str()));
				}
			}
			else if(!aborted) {
				for(auto & e : evs) if(e.enqReturned && e.st != E_CONSUMED && !ctx.failed) ctx.fail("event-lost", fmt("event %d was neither dispatched, taken nor cleared although the queue was drained after all threads finished", e.id));
			}
			for(auto & e : evs) ctx.obs((uint64_t)e.st);
			ctx.obs(aborted ? (s.pruned ? 5 : 9) : 1);
			q = nullptr;
		}
		checkLedgerErrors(ctx, "after destruction");
		if(!s.pruned && ledger().liveTotal(TC_PAYLOAD) != 0 && !ctx.failed) ctx.fail("payload-leak", "payload objects still alive after the queue was destroyed: " + ledger().describeLive());
	}
	// a DisableQueueNotify whose constructor or destructor is in progress belongs to a thread that is not blocked in wait(),
	// so at a deadlock with only waiters blocked there is none; kept for clarity
	int dqnCountAliveIncludingPartial() const { return 0; }
};

// ------------------------------------------------------------------ configurations
static Config mk(std::initializer_list<Prog> ts) { Config c; for(auto & t : ts) c.threads.push_back(t); return c; }
#ifdef VERIF_HETER
#define FAMPREFIX "/all-interleavings/heter/"
static std::vector<Config> configs(const std::string & fam, int tier) {
	std::vector<Config> v;
	if(fam == "C07") {
		v.push_back(mk({{O_WAIT_PROCESS}, {O_ENQ}}));
		v.push_back(mk({{O_WAITFOR_PROCESS}, {O_ENQ}}));
		v.push_back(mk({{O_WAIT_PROCESS}, {O_ENQ, O_ENQ}}));
		v.push_back(mk({{O_WAIT_PROCESS}, {O_ENQ}, {O_PROCESS}}));
		v.push_back(mk({{O_WAIT_PROCESS}, {O_ENQ, O_ENQ, O_PROCESS_IF_ODD}}));
		if(tier >= 1) {
			v.push_back(mk({{O_WAIT_PROCESS}, {O_ENQ, O_ENQ}, {O_PROCESS_IF_ODD}}));
			v.push_back(mk({{O_WAIT_PROCESS}, {O_WAIT_PROCESS}, {O_ENQ, O_ENQ}}));
			v.push_back(mk({{O_WAIT_DRAIN}, {O_ENQ}, {O_ENQ}}));
			v.push_back(mk({{O_WAITFOR_PROCESS}, {O_ENQ}, {O_PROCESS_ONE}}));
		}
	}
	else if(fam == "C06") {
		v.push_back(mk({{O_ENQ, O_ENQ}, {O_PROCESS_ONE}}));
		v.push_back(mk({{O_ENQ, O_ENQ}, {O_PROCESS_IF_ODD, O_PROCESS}}));
		v.push_back(mk({{O_ENQ}, {O_PROCESS_ONE}, {O_PROCESS}}));
		if(tier >= 1) {
			v.push_back(mk({{O_ENQ, O_ENQ}, {O_PROCESS}, {O_PROCESS_ONE}}));
			v.push_back(mk({{O_ENQ, O_ENQ}, {O_CLEAR}, {O_PROCESS}}));
			v.push_back(mk({{O_ENQ, O_ENQ}, {O_PROCESS_IF_ODD}, {O_PROCESS_ONE}}));
			v.push_back(mk({{O_ENQ}, {O_ENQ}, {O_PROCESS_ONE, O_PROCESS_ONE}}));
			v.push_back(mk({{O_ENQ, O_ENQ}, {O_ENQ}, {O_PROCESS_IF_ODD}}));
		}
	}
	else {   // C11
		v.push_back(mk({{O_EMPTY}, {O_ENQ}, {O_PROCESS}}));
		v.push_back(mk({{O_EMPTY}, {O_ENQ}, {O_PROCESS_ONE}}));
		if(tier >= 1) {
			v.push_back(mk({{O_ENQ, O_ENQ}, {O_PROCESS_ONE}, {O_PROCESS_ONE}}));
			v.push_back(mk({{O_EMPTY}, {O_ENQ, O_ENQ}, {O_PROCESS}}));
			v.push_back(mk({{O_EMPTY, O_EMPTY}, {O_ENQ}, {O_CLEAR}}));
			v.push_back(mk({{O_EMPTY}, {O_ENQ, O_ENQ}, {O_PROCESS_IF_ODD}}));
			v.push_back(mk({{O_ENQ, O_EMPTY}, {O_PROCESS_ONE}}));
		}
	}
	return v;
}
#else
#define FAMPREFIX "/all-interleavings/"
static std::vector<Config> configs(const std::string & fam, int tier) {
	std::vector<Config> v;
	if(fam == "C07") {
		v.push_back(mk({{O_WAIT_PROCESS}, {O_DQN_ENQ}}));
		v.push_back(mk({{O_WAIT_PROCESS}, {O_ENQ}}));
		v.push_back(mk({{O_WAITFOR_PROCESS}, {O_DQN_ENQ}}));
		v.push_back(mk({{O_WAIT_PROCESS}, {O_DQN2}}));
		v.push_back(mk({{O_WAIT_PROCESS}, {O_DQN_ENQ, O_ENQ}}));
		v.push_back(mk({{O_WAIT_PROCESS}, {O_ENQ}, {O_DQN_ONLY}}));
		v.push_back(mk({{O_WAIT_PROCESS}, {O_DQN_ENQ}, {O_PROCESS}}));
		v.push_back(mk({{O_WAIT_PROCESS}, {O_ENQ, O_ENQ, O_PROCESS_IF_ODD}}));
		v.push_back(mk({{O_WAIT_PROCESS}, {O_ENQ, O_ENQ, O_PROCESS_UNTIL_EVEN}}));
		if(tier >= 1) {
			v.push_back(mk({{O_WAIT_PROCESS}, {O_ENQ, O_ENQ}, {O_PROCESS_IF_ODD}}));
			v.push_back(mk({{O_WAITFOR_PROCESS}, {O_ENQ, O_ENQ}, {O_PROCESS_UNTIL_EVEN}}));
			v.push_back(mk({{O_WAIT_PROCESS}, {O_DQN_ENQ}, {O_ENQ}}));
			v.push_back(mk({{O_WAIT_PROCESS}, {O_WAIT_PROCESS}, {O_DQN_ENQ}}));
			v.push_back(mk({{O_WAIT_PROCESS}, {O_WAIT_PROCESS}, {O_ENQ, O_ENQ}}));
			v.push_back(mk({{O_WAITFOR_PROCESS}, {O_DQN2}, {O_PROCESS}}));
			v.push_back(mk({{O_WAIT_DRAIN}, {O_DQN_ENQ}, {O_DQN_ONLY}}));
		}
	}
	else if(fam == "C06") {
		v.push_back(mk({{O_ENQ, O_ENQ}, {O_PROCESS_ONE}}));
		v.push_back(mk({{O_ENQ, O_ENQ}, {O_TAKE, O_PROCESS}}));
		v.push_back(mk({{O_ENQ}, {O_PROCESS_ONE}, {O_TAKE}}));
		v.push_back(mk({{O_ENQ, O_ENQ}, {O_TAKE}, {O_TAKE}}));
		if(tier >= 1) {
			v.push_back(mk({{O_ENQ, O_ENQ}, {O_PROCESS}, {O_PROCESS_ONE}}));
			v.push_back(mk({{O_ENQ, O_ENQ}, {O_CLEAR}, {O_PROCESS}}));
			v.push_back(mk({{O_ENQ}, {O_ENQ}, {O_PROCESS_ONE, O_TAKE}}));
			v.push_back(mk({{O_ENQ, O_ENQ}, {O_PROCESS_IF_ODD}, {O_PROCESS_ONE}}));
			v.push_back(mk({{O_ENQ, O_ENQ}, {O_ENQ}, {O_PROCESS_IF_ODD}}));
			v.push_back(mk({{O_ENQ, O_ENQ}, {O_ENQ}, {O_PROCESS_UNTIL_EVEN}}));
			v.push_back(mk({{O_ENQ, O_ENQ}, {O_PROCESS_UNTIL_EVEN}, {O_TAKE}}));
		}
	}
	else {   // C11
		v.push_back(mk({{O_EMPTY}, {O_ENQ}, {O_PROCESS}}));
		v.push_back(mk({{O_EMPTY}, {O_ENQ}, {O_PROCESS_ONE}}));
		v.push_back(mk({{O_ENQ, O_EMPTY}, {O_PROCESS_ONE}}));
		v.push_back(mk({{O_ENQ, O_ENQ}, {O_PROCESS_ONE}, {O_PROCESS_ONE}}));     // two consumers: the listeners ask emptyQueue()
		if(tier >= 1) {
			v.push_back(mk({{O_ENQ, O_ENQ}, {O_PROCESS_ONE}, {O_PROCESS}}));
			v.push_back(mk({{O_EMPTY}, {O_ENQ, O_ENQ}, {O_PROCESS}}));
			v.push_back(mk({{O_EMPTY}, {O_ENQ, O_ENQ}, {O_PROCESS_ONE, O_PROCESS_ONE}}));
			v.push_back(mk({{O_EMPTY}, {O_ENQ}, {O_TAKE}}));
			v.push_back(mk({{O_EMPTY, O_EMPTY}, {O_ENQ}, {O_CLEAR}}));
			v.push_back(mk({{O_EMPTY}, {O_ENQ, O_ENQ}, {O_PROCESS_IF_ODD}}));
		}
	}
	return v;
}
#endif

static void addFamily(const std::string & fam) {
	for(int tierOf = 0; tierOf <= 1; ++tierOf) {
		std::vector<Config> all = configs(fam, 1), quick = configs(fam, 0);
		for(size_t ci = 0; ci < all.size(); ++ci) {
			bool isQuick = ci < quick.size();
			if((tierOf == 0) != isQuick) continue;
			Config cfg = all[ci];
			Unit u; u.name = fmt("%s" FAMPREFIX "%02zu %s", fam.c_str(), ci, cfg.name().c_str()); u.minTier = isQuick ? 0 : 1;
			u.run = [cfg](Ctx & ctx, UnitReport & rep, int) {
				std::unordered_set<uint64_t> va, vb;
				Sched & s = sched();
				s.stateful = true; s.visitedA = &va; s.visitedB = &vb; s.prunedCount = 0; s.maxSteps = 20000;
				long deadlocks = 0, maxPoints = 0;
				ctx.samples.push_back(cfg.name());
				DfsResult r = dfs(ctx, 1 << 24, [&]() { Run run(ctx, cfg); run.run(); if(s.deadlock.happened) ++deadlocks; maxPoints = std::max(maxPoints, s.steps); });
				s.stateful = false;
				rep.num["states"] = (double)va.size();
				rep.num["transitions"] = (double)(ctx.executions);
				rep.num["executions"] = (double)ctx.executions;
				rep.num["pruned_executions"] = (double)s.prunedCount;
				rep.num["deadlock_outcomes"] = (double)deadlocks;
				rep.num["max_points_per_execution"] = (double)maxPoints;
				if(!r.complete) rep.exhaustive = false;
				rep.str["config"] = "ALL interleavings (visited-state pruning, no preemption bound): " + cfg.name();
			};
			u.replay = [cfg](Ctx & ctx, const std::vector<int> & seq) {
				ctx.ex.prefix = seq; ctx.ex.stack.clear(); ctx.ex.defaultsOnly = true; ctx.ex.beginExecution();
				ctx.tracing = true; ctx.trace.clear(); ctx.failed = false;
				sched().stateful = false;
				ctx.log("configuration: " + cfg.name());
				Run run(ctx, cfg); run.run();
			};
			units().push_back(u);
		}
	}
}

#ifndef VERIF_ONLY
#define VERIF_ONLY 0
#endif
static struct Register {
	Register() {
#if VERIF_ONLY == 0 || VERIF_ONLY == 6
		addFamily("C06");
#endif
#if VERIF_ONLY == 0 || VERIF_ONLY == 7
		addFamily("C07");
#endif
#if VERIF_ONLY == 0 || VERIF_ONLY == 11
		addFamily("C11");
#endif
	}
} reg;

VERIF_MAIN("sfull")
