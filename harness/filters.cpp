// Engine H harness for C12: filters and canContinueInvoking gate every dispatch (direct or queued);
// conditionalFunctor and argumentAdapter by exhaustive input enumeration.
#define VERIF_DEFINE_HOOKS
#include "../fw/core.h"
#include "../fw/ledger.h"
#include "../fw/sched.h"
#include <eventpp/eventdispatcher.h>
#include <eventpp/eventqueue.h>
#include <eventpp/hetereventdispatcher.h>
#include <eventpp/mixins/mixinfilter.h>
#include <eventpp/mixins/mixinheterfilter.h>
#include <eventpp/utilities/conditionalfunctor.h>
#include <eventpp/utilities/argumentadapter.h>
#include <memory>

using namespace verif;

struct Obs { int kind; int who; int v; int payload; };   // kind 0 filter, 1 listener, 2 second mixin, 3 canContinue policy
static bool operator==(const Obs & a, const Obs & b) { return a.kind == b.kind && a.who == b.who && a.v == b.v && a.payload == b.payload; }
static std::vector<Obs> * g_obs = nullptr;
static void rec(int kind, int who, int v, int payload) { if(g_obs) g_obs->push_back(Obs{kind, who, v, payload}); }
static std::string obsStr(const std::vector<Obs> & o) { std::string s = "["; static const char * kn[] = {"F", "L", "M2:", "policy:"}; for(auto & x : o) s += fmt("%s%d(v=%d%s) ", kn[x.kind], x.who, x.v, x.payload >= 0 ? fmt(",p=%d", x.payload).c_str() : ""); return s + "]"; }

enum FilterKind { FK_PASS, FK_BLOCK, FK_ADD1, FK_BLOCK_IF_1, NFK };
// only in the main search: a filter that, the first time it runs, registers a listener for the very event being dispatched
// ("install the default handler lazily") and passes - the listener is registered before the listeners are looked up, so the
// same dispatch reaches it, whether or not the event had a listener list before
static const int FK_REGISTER = NFK, NFKM = NFK + 1;
static const char * fkName(int k) { static const char * n[] = {"pass", "block", "add-1-to-arg", "block-if-arg==1", "register-a-listener-on-first-run"}; return n[k]; }
static bool applyFilter(int kind, int & v) {
	switch(kind) { case FK_PASS: return true; case FK_BLOCK: return false; case FK_ADD1: v += 1; return true; case FK_BLOCK_IF_1: return v != 1; }
	return true;
}

static bool g_block2 = false;
template <typename Base>
struct MixinSecond : Base {
	template <typename A, typename ...Rest>
	bool mixinBeforeDispatch(A && a, Rest && ...) const { rec(2, 0, (int)a, -1); return !g_block2; }
};

// a mixin that only adds an API function and has no mixinBeforeDispatch hook of its own
template <typename Base>
struct MixinHookless : Base { int extraApi() const { return 42; } };
template <typename Th> struct PolF { using Threading = Th; using Mixins = eventpp::MixinList<eventpp::MixinFilter>; };
template <typename Th> struct PolHooklessFirst { using Threading = Th; using Mixins = eventpp::MixinList<MixinHookless, eventpp::MixinFilter>; };
template <typename Th> struct PolF2 { using Threading = Th; using Mixins = eventpp::MixinList<eventpp::MixinFilter, MixinSecond>; };

struct Cfg { int maxFilters = 3; int maxListeners = 2; bool queue = false; bool twoMixins = false; const char * sigPrefix = ""; };

// ArgKind: 0 = void(int, Tracked) (by value), 1 = void(int &, Tracked &), 2 = void(const int &, const Tracked &)
template <int ArgKind> struct Proto;
template <> struct Proto<0> { typedef void Sig(int, Tracked); typedef int & FI; typedef Tracked & FT; static const bool mutableArg = true; static const char * name() { return "void(int, Tracked)"; } };
template <> struct Proto<1> { typedef void Sig(int &, Tracked &); typedef int & FI; typedef Tracked & FT; static const bool mutableArg = true; static const char * name() { return "void(int&, Tracked&)"; } };
template <> struct Proto<2> { typedef void Sig(const int &, const Tracked &); typedef const int & FI; typedef const Tracked & FT; static const bool mutableArg = false; static const char * name() { return "void(const int&, const Tracked&)"; } };

template <typename D, int ArgKind>
struct Harness {
	typedef Proto<ArgKind> PR;
	typedef typename D::Handle Handle; typedef typename D::FilterHandle FilterHandle;
	Cfg cfg; Ctx & ctx; D * d = nullptr;
	struct MF { int id; int kind; bool alive; bool fired = false; };
	struct Reg { int filter; int listener; int key; };
	std::vector<Reg> toRegister;          // decided by the model when it predicts a dispatch, carried out by the real filter when it runs
	std::map<int, int> keyOfPayload;
	void onRegisterFilter(int f) {
		for(size_t i = 0; i < toRegister.size(); ++i) if(toRegister[i].filter == f) {
			Reg r = toRegister[i]; toRegister.erase(toRegister.begin() + i);
			int id = r.listener;
			ctx.log(fmt("  (filter F%d registers listener L%d for key %d)", f, id, r.key));
			lh[id] = d->appendListener(r.key + 1, [id](const int & v, const Tracked & t) { rec(1, id, v, t.id); });
			return;
		}
	}
	std::vector<MF> filters; std::vector<FilterHandle> fh; std::vector<int> forder;
	std::vector<int> lorder[2]; std::vector<Handle> lh; std::vector<int> lkey; std::vector<char> lalive;
	int fslot[2], lslot[2]; int fadds = 0, ladds = 0; int nextPayload = 1; int pendingCount = 0;
	struct Pend { int key; int v; int payload; };
	std::vector<Pend> pending;
	Harness(Ctx & c, const Cfg & cf) : cfg(cf), ctx(c) {}

	template <typename FI> static typename std::enable_if<!std::is_const<typename std::remove_reference<FI>::type>::value, bool>::type runFilter(int kind, FI v) { return applyFilter(kind, v); }
	template <typename FI> static typename std::enable_if<std::is_const<typename std::remove_reference<FI>::type>::value, bool>::type runFilter(int kind, FI v) { int c = v; return applyFilter(kind, c); }

	static std::vector<int> & filterCalls() { static std::vector<int> v; return v; }
	void appendFilter(int kind) {
		int id = (int)filters.size(); { MF m; m.id = id; m.kind = kind; m.alive = true; filters.push_back(m); } fh.push_back(FilterHandle());
		ctx.log(fmt("appendFilter(%s) -> F%d", fkName(kind), id));
		// every filter carries its own invocation counter (a stateful filter: quota, dedup, rate limit): the mixin has to keep
		// running the object it stored, not copies of it
		filterCalls().resize(filters.size(), 0); filterCalls()[id] = 0;
		Ctx * cx = &ctx;
		int own = 0;
		Harness * self = this;
		fh[id] = d->appendFilter([id, kind, own, cx, self](typename PR::FI v, typename PR::FT t) mutable -> bool {
			if(kind == FK_REGISTER) self->onRegisterFilter(id);
			++own; int seenByHarness = ++filterCalls()[id];
			if(own != seenByHarness) cx->fail("filter-state-lost", fmt("filter F%d is at its invocation number %d, the dispatcher has run it %d times: it is not the stored filter object that runs", id, own, seenByHarness));
			rec(0, id, v, t.id); return runFilter<typename PR::FI>(kind, v);
		});
		forder.push_back(id); fslot[fadds % 2] = id; ++fadds;
	}
	void removeFilter(int id) {
		bool expect = filters[id].alive;
		bool got = d->removeFilter(fh[id]);
		ctx.log(fmt("removeFilter(F%d) -> %d", id, (int)got)); ctx.tagStep(got ? "+r1" : "+r0");
		if(expect) { filters[id].alive = false; forder.erase(std::find(forder.begin(), forder.end(), id)); }
		if(got != expect) ctx.fail("removefilter-result", fmt("removeFilter(F%d) returned %d, expected %d", id, (int)got, (int)expect));
	}
	void appendListener(int key) {
		int id = (int)lh.size(); lh.push_back(Handle()); lkey.push_back(key); lalive.push_back(1);
		ctx.log(fmt("appendListener(key %d) -> L%d", key, id));
		lh[id] = d->appendListener(key + 1, [id](const int & v, const Tracked & t) { rec(1, id, v, t.id); });
		lorder[key].push_back(id); lslot[ladds % 2] = id; ++ladds;
	}
	void removeListener(int id) {
		bool expect = lalive[id];
		bool got = d->removeListener(lkey[id] + 1, lh[id]);
		ctx.tagStep(got ? "+r1" : "+r0");
		ctx.log(fmt("removeListener(L%d) -> %d", id, (int)got));
		if(expect) { lalive[id] = 0; auto & o = lorder[lkey[id]]; o.erase(std::find(o.begin(), o.end(), id)); }
		if(got != expect) ctx.fail("removelistener-result", fmt("removeListener(L%d) returned %d", id, (int)got));
	}
	// what one dispatch of (key, v, payload) must produce
	void expectDispatch(int key, int v, int payload, std::vector<Obs> & want) {
		int cur = v;
		for(int f : forder) {
			want.push_back(Obs{0, f, cur, payload});
			if(filters[f].kind == FK_REGISTER && !filters[f].fired && (int)(lorder[0].size() + lorder[1].size()) <= cfg.maxListeners) {
				filters[f].fired = true;
				int id = (int)lh.size(); lh.push_back(Handle()); lkey.push_back(key); lalive.push_back(1);
				lorder[key].push_back(id); lslot[ladds % 2] = id; ++ladds;
				toRegister.push_back(Reg{f, id, key});
			}
			int before = cur;
			bool pass = applyFilter(filters[f].kind, cur);
			if(!PR::mutableArg) cur = before;       // const prototypes: filters cannot modify
			if(!pass) return;
		}
		if(cfg.twoMixins) { want.push_back(Obs{2, 0, cur, -1}); if(g_block2) return; }
		for(int l : lorder[key]) want.push_back(Obs{1, l, cur, payload});
	}
	void check(const std::vector<Obs> & want, const std::vector<Obs> & got, const char * what) {
		for(auto & o : got) { ctx.obs(o.kind * 1000 + o.who); ctx.obs(o.v); }
		if(want == got || ctx.failed) return;
		const char * clause = "pipeline-differs";
		size_t i = 0; while(i < want.size() && i < got.size() && want[i] == got[i]) ++i;
		if(i < got.size() && got[i].kind == 1 && (i >= want.size() || want[i].kind != 1)) clause = "listener-ran-although-blocked";
		else if(i < got.size() && got[i].kind == 0 && !filters[got[i].who].alive) clause = "removed-filter-ran";
		else if(i < got.size() && i < want.size() && got[i].kind == want[i].kind && got[i].who == want[i].who && got[i].v != want[i].v) clause = "filter-modification-not-propagated";
		else if(i < got.size() && i < want.size() && got[i].kind == 0 && want[i].kind == 0) clause = "filter-order";
		else if(i >= got.size()) clause = "filter-or-listener-skipped";
		ctx.fail(std::string(cfg.sigPrefix) + clause, fmt("%s: observed %s, expected %s", what, obsStr(got).c_str(), obsStr(want).c_str()));
	}
	void dispatch(int key, int v) {
		int pid = nextPayload++;
		std::vector<Obs> want, got; expectDispatch(key, v, pid, want);
		g_obs = &got;
		ctx.log(fmt("dispatch(key %d, %d)", key, v));
		int lv = v; Tracked tv(pid);
		d->dispatch(key + 1, lv, tv);
		g_obs = nullptr;
		check(want, got, "dispatch");
		if(ArgKind == 0 && (lv != v || !tv.intact())) ctx.fail("caller-argument-modified", "a by-value prototype let filters modify the caller's own variables");
	}
	template <typename Q> void enqueueOp(Q * q, int key, int v) { int pid = nextPayload++; ctx.log(fmt("enqueue(key %d, %d)", key, v)); int lv = v; Tracked tv(pid); q->enqueue(key + 1, lv, tv); pending.push_back(Pend{key, v, pid}); }
	template <typename Q> void processOp(Q * q, bool one) {
		std::vector<Obs> want, got;
		size_t n = one ? std::min<size_t>(1, pending.size()) : pending.size();
		for(size_t i = 0; i < n; ++i) expectDispatch(pending[i].key, pending[i].v, pending[i].payload, want);
		g_obs = &got;
		ctx.log(one ? "processOne" : "process");
		bool r = one ? q->processOne() : q->process();
		g_obs = nullptr;
		check(want, got, one ? "processOne" : "process");
		if(r != (n > 0) && !ctx.failed) ctx.fail("result-wrong", "process result wrong");
		pending.erase(pending.begin(), pending.begin() + n);
	}
	void queueOps(Bfs & b, int op, std::true_type) {
		if(op < 6) { if(pending.size() >= 2) b.skip(); enqueueOp(d, op / 3, op % 3); return; }
		processOp(d, op == 7);
	}
	void queueOps(Bfs & b, int, std::false_type) { b.skip(); }

	int menu() const { return NFKM + 2 + 2 + 2 + 6 + (cfg.queue ? 8 : 0) + (cfg.twoMixins ? 1 : 0); }
	void topOp(Bfs & b, int op) {
		if(op < NFKM) { if((int)forder.size() >= cfg.maxFilters) b.skip(); appendFilter(op); return; } op -= NFKM;
		if(op < 2) { if(fslot[op] < 0) b.skip(); removeFilter(fslot[op]); return; } op -= 2;
		if(op < 2) { if((int)(lorder[0].size() + lorder[1].size()) >= cfg.maxListeners) b.skip(); appendListener(op); return; } op -= 2;
		if(op < 2) { if(lslot[op] < 0) b.skip(); removeListener(lslot[op]); return; } op -= 2;
		if(op < 6) { dispatch(op / 3, op % 3); return; } op -= 6;
		if(cfg.queue) { if(op < 8) { queueOps(b, op, std::integral_constant<bool, std::is_base_of<eventpp::TagEventQueue, D>::value>()); return; } op -= 8; }
		g_block2 = !g_block2; ctx.log(fmt("second mixin now %s", g_block2 ? "blocks" : "passes"));
	}
	std::string key() {
		std::string k = "F:";
		for(int f : forder) k += fmt("%d%s,", filters[f].kind, filters[f].fired ? "f" : "");
		k += "|";
		for(int i = 0; i < 2; ++i) k += fslot[i] < 0 ? std::string("e,") : filters[fslot[i]].alive ? fmt("%d,", (int)(std::find(forder.begin(), forder.end(), fslot[i]) - forder.begin())) : std::string("d,");
		k += fmt("a%d|L:%zu,%zu|", fadds % 2, lorder[0].size(), lorder[1].size());
		for(int i = 0; i < 2; ++i) k += lslot[i] < 0 ? std::string("e,") : lalive[lslot[i]] ? fmt("%d.%d,", lkey[lslot[i]], (int)(std::find(lorder[lkey[lslot[i]]].begin(), lorder[lkey[lslot[i]]].end(), lslot[i]) - lorder[lkey[lslot[i]]].begin())) : std::string("d,");
		k += fmt("a%d|P:", ladds % 2);
		for(auto & p : pending) k += fmt("%d.%d,", p.key, p.v);
		// what the implementation holds, relative to the model's order (one token each when they agree): listeners per event by
		// public enumeration, filters through the mixin's private list
		for(int key = 0; key < 2; ++key) {
			std::string ord; bool same = true; size_t pos = 0;
			d->forEach(key + 1, [&](const Handle & h, const typename D::Callback &) {
				int id = -1; for(size_t i = 0; i < lh.size(); ++i) if(lh[i].lock() == h.lock()) id = (int)i;
				if(pos >= lorder[key].size() || lorder[key][pos] != id) same = false;
				ord += fmt("%d,", id); ++pos;
			});
			if(pos != lorder[key].size()) same = false;
			k += same ? std::string("|=") : "|E:" + ord;
		}
#ifndef VERIF_NO_PRIVATE
		{
			std::string ord; bool same = true; size_t pos = 0;
			d->filterList.forEach([&](const typename D::FilterHandle & h, const typename D::Filter &) {
				int id = -1; for(size_t i = 0; i < fh.size(); ++i) if(fh[i].lock() == h.lock()) id = (int)i;
				if(pos >= forder.size() || forder[pos] != id) same = false;
				ord += fmt("%d,", id); ++pos;
			});
			if(pos != forder.size()) same = false;
			k += same ? std::string("|=") : "|FE:" + ord;
		}
#endif
		return k + (g_block2 ? "B" : "");
	}
	void body(Bfs & b) {
		ledger().reset(); g_block2 = false;
		filters.clear(); fh.clear(); forder.clear(); lh.clear(); lkey.clear(); lalive.clear(); lorder[0].clear(); lorder[1].clear(); pending.clear(); toRegister.clear();
		fslot[0] = fslot[1] = lslot[0] = lslot[1] = -1; fadds = ladds = 0; nextPayload = 1;
		D disp; d = &disp;
		struct Clear { Harness * h; ~Clear() { h->fh.clear(); h->lh.clear(); } } clr{this};
		b.stepEnd(key());
		for(;;) {
			int op = b.chooseOp(menu()); topOp(b, op);
			checkLedgerErrors(ctx, "quiescent");
			if(!ctx.failed && ledger().liveTotal(TC_PAYLOAD, false) != (int)pending.size()) ctx.fail("ledger-payload-count", fmt("%d payload objects alive with %zu events pending", ledger().liveTotal(TC_PAYLOAD, false), pending.size()));
			b.stepEnd(key());
		}
	}
	void after() { checkLedgerErrors(ctx, "after destruction"); if(ledger().liveAll() != 0 && !ctx.failed) ctx.fail("ledger-leak-after-destruction", ledger().describeLive()); }
};

// ------------------------------------------------------------------ canContinueInvoking
struct PolContinue {
	using Threading = eventpp::SingleThreading;
	static bool canContinueInvoking(int & v) { rec(3, 0, v, -1); return v != 1; }
};
struct ContinueHarness {
	Ctx & ctx;
	ContinueHarness(Ctx & c) : ctx(c) {}
	// listeners of kinds: 0 observe, 1 set the argument to 1, 2 add 1; every list of up to 3 listeners x start value 0..2
	void body(Bfs & b) {
		ledger().reset();
		b.stepEnd("start");
		int n = b.chooseOp(4);
		int kinds[3] = {0, 0, 0};
		for(int i = 0; i < n; ++i) kinds[i] = ctx.ex.choose(3, 3, K_OP);
		int v0 = ctx.ex.choose(3, 3, K_OP);
		int via = ctx.ex.choose(2, 2, K_OP);     // 0 CallbackList, 1 EventDispatcher
		std::vector<Obs> got, want; g_obs = &got;
		auto mk = [](int id, int kind) { return [id, kind](int & v) { rec(1, id, v, -1); if(kind == 1) v = 1; else if(kind == 2) v += 1; }; };
		int v = v0;
		if(via == 0) { eventpp::CallbackList<void(int &), PolContinue> l; for(int i = 0; i < n; ++i) l.append(mk(i, kinds[i])); l(v); }
		else { eventpp::EventDispatcher<int, void(int &), PolContinue> d; for(int i = 0; i < n; ++i) d.appendListener(4, mk(i, kinds[i])); d.dispatch(4, v); }
		g_obs = nullptr;
		int cur = v0;
		for(int i = 0; i < n; ++i) {
			want.push_back(Obs{1, i, cur, -1});
			if(kinds[i] == 1) cur = 1; else if(kinds[i] == 2) cur += 1;
			want.push_back(Obs{3, 0, cur, -1});
			if(cur == 1) break;
		}
		std::string desc = fmt("%s with %d listeners (kinds %d%d%d), argument %d", via ? "EventDispatcher" : "CallbackList", n, kinds[0], kinds[1], kinds[2], v0);
		ctx.log(desc);
		for(auto & o : got) { ctx.obs(o.kind * 100 + o.who); ctx.obs(o.v); }
		if(!(want == got)) ctx.fail("cancontinue-differs", fmt("%s: observed %s, expected %s", desc.c_str(), obsStr(got).c_str(), obsStr(want).c_str()));
		if(v != cur) ctx.fail("argument-not-shared", "modifications by listeners are not visible to the caller's reference argument");
		b.stepEnd(fmt("done%d.%d%d%d.%d.%d", n, kinds[0], kinds[1], kinds[2], v0, via));
	}
};

// ------------------------------------------------------------------ heterogeneous filter
struct PolHF { using Threading = eventpp::SingleThreading; using Mixins = eventpp::MixinList<eventpp::MixinHeterFilter>; };
typedef eventpp::HeterTuple<void(int), void(const std::string &)> HT;
struct HeterFilterHarness {
	Ctx & ctx;
	HeterFilterHarness(Ctx & c) : ctx(c) {}
	void body(Bfs & b) {
		ledger().reset();
		b.stepEnd("start");
		// filters: up to 2 int filters (kinds) and 1 string filter (pass/block); one listener per prototype
		int nf = b.chooseOp(3);
		int kinds[2] = {0, 0};
		for(int i = 0; i < nf; ++i) kinds[i] = ctx.ex.choose(NFK, NFK, K_OP);
		int sf = ctx.ex.choose(3, 3, K_OP);        // 0 none, 1 pass, 2 block
		int v0 = ctx.ex.choose(3, 3, K_OP);
		int removeFirst = nf > 0 ? ctx.ex.choose(2, 2, K_OP) : 0;
		eventpp::HeterEventDispatcher<int, HT, PolHF> d;
		std::vector<Obs> got, want; g_obs = &got;
		d.appendListener(3, [](int v) { rec(1, 0, v, -1); });
		d.appendListener(3, [](const std::string & s) { rec(1, 1, (int)s.size(), -1); });
		std::vector<decltype(d)::FilterHandle> hs;
		for(int i = 0; i < nf; ++i) { int kind = kinds[i]; hs.push_back(d.appendFilter([i, kind](int & v) -> bool { rec(0, i, v, -1); return applyFilter(kind, v); })); }
		if(sf) d.appendFilter([sf](const std::string & s) -> bool { rec(0, 9, (int)s.size(), -1); return sf == 1; });
		bool removed = false;
		if(removeFirst) { removed = d.removeFilter(hs[0]); if(!removed) ctx.fail("removefilter-result", "removeFilter returned false for an attached filter"); }
		int arg = v0;
		d.dispatch(3, arg);
		const std::string text("abcd");   // MixinHeterFilter only compiles for arguments whose lvalue type matches the filter prototype exactly
		d.dispatch(3, text);
		g_obs = nullptr;
		int cur = v0; bool blocked = false;
		for(int i = removeFirst ? 1 : 0; i < nf; ++i) { want.push_back(Obs{0, i, cur, -1}); if(!applyFilter(kinds[i], cur)) { blocked = true; break; } }
		// the prototype takes int by value: the filters see the dispatcher's own copy, their changes reach the listeners
		if(!blocked) want.push_back(Obs{1, 0, cur, -1});
		if(sf) want.push_back(Obs{0, 9, 4, -1});
		if(sf != 2) want.push_back(Obs{1, 1, 4, -1});
		std::string desc = fmt("HeterEventDispatcher+MixinHeterFilter: %d int filters (kinds %d,%d%s), string filter %d, dispatch(%d) then dispatch(\"abcd\")", nf, kinds[0], kinds[1], removeFirst ? ", first removed" : "", sf, v0);
		ctx.log(desc);
		for(auto & o : got) { ctx.obs(o.kind * 100 + o.who); ctx.obs(o.v); }
		if(!(want == got)) ctx.fail("heter-filter-pipeline-differs", fmt("%s: observed %s, expected %s", desc.c_str(), obsStr(got).c_str(), obsStr(want).c_str()));
		b.stepEnd(fmt("done%d.%d%d.%d.%d.%d", nf, kinds[0], kinds[1], sf, v0, removeFirst));
	}
};

// ------------------------------------------------------------------ conditionalFunctor / argumentAdapter: input enumeration
struct Base0 { int tag; virtual ~Base0() {} };
struct Derived0 : Base0 { int extra; };
static long g_long; static int g_int; static int g_tag;
static void freeTakesLong(long v) { g_long = v; }
struct UtilHarness {
	Ctx & ctx;
	UtilHarness(Ctx & c) : ctx(c) {}
	void body(Bfs & b) {
		ledger().reset();
		b.stepEnd("start");
		int which = b.chooseOp(7);
		int v = ctx.ex.choose(5, 5, K_OP) - 2;          // -2..2
		int outcome = ctx.ex.choose(4, 4, K_OP);        // condition: 0 false, 1 true, 2 value odd, 3 stateful (true on 2nd call)
		std::string desc;
		if(which == 0) {
			// conditionalFunctor in a CallbackList: runs exactly when its condition holds for the dispatched arguments
			int calls = 0, condCalls = 0, seenV = -99, state = 0;
			eventpp::CallbackList<void(int)> l;
			l.append(eventpp::conditionalFunctor([&](int x) { ++calls; seenV = x; }, [&, outcome](int x) { ++condCalls; ++state; return outcome == 0 ? false : outcome == 1 ? true : outcome == 2 ? (x % 2 != 0) : state == 2; }));
			l(v); int calls1 = calls; l(v);
			bool e1 = outcome == 1 || (outcome == 2 && v % 2 != 0), e2 = outcome == 1 || (outcome == 2 && v % 2 != 0) || outcome == 3;
			desc = fmt("conditionalFunctor condition kind %d, value %d", outcome, v);
			if(calls1 != (int)e1 || calls - calls1 != (int)e2) ctx.fail("conditionalfunctor-wrong", fmt("%s: listener ran %d then %d times, expected %d then %d", desc.c_str(), calls1, calls - calls1, (int)e1, (int)e2));
			if(condCalls != 2) ctx.fail("conditionalfunctor-wrong", fmt("%s: condition evaluated %d times for 2 invocations", desc.c_str(), condCalls));
			if(calls && seenV != v) ctx.fail("conditionalfunctor-wrong", "listener received a different value");
			ctx.obs(calls * 10 + condCalls);
		}
		else if(which == 1) {
			// argumentAdapter<Prototype>(lambda): int -> long
			long got = -99; eventpp::CallbackList<void(int)> l;
			l.append(eventpp::argumentAdapter<void(long)>([&](long x) { got = x; }));
			l(v); desc = fmt("argumentAdapter<void(long)>(lambda) with %d", v);
			if(got != (long)v) ctx.fail("argumentadapter-wrong", fmt("%s delivered %ld", desc.c_str(), got));
			ctx.obs((uint64_t)got);
		}
		else if(which == 2) {
			// argumentAdapter(std::function): double -> int (truncation as by static_cast)
			int got = -99; eventpp::CallbackList<void(double)> l;
			std::function<void(int)> f = [&](int x) { got = x; };
			l.append(eventpp::argumentAdapter(f));
			double dv = v + 0.75 * (v >= 0 ? 1 : -1);
			l(dv); desc = fmt("argumentAdapter(std::function<void(int)>) with %g", dv);
			if(got != static_cast<int>(dv)) ctx.fail("argumentadapter-wrong", fmt("%s delivered %d", desc.c_str(), got));
			ctx.obs((uint64_t)(got + 100));
		}
		else if(which == 3) {
			// argumentAdapter(free function pointer)
			g_long = -99; eventpp::CallbackList<void(int)> l;
			l.append(eventpp::argumentAdapter(&freeTakesLong));
			l(v); desc = fmt("argumentAdapter(function pointer void(long)) with %d", v);
			if(g_long != (long)v) ctx.fail("argumentadapter-wrong", fmt("%s delivered %ld", desc.c_str(), g_long));
			ctx.obs((uint64_t)(g_long + 100));
		}
		else if(which == 4) {
			// Base& -> Derived& (static_cast down, the documented use: listener wants the derived event)
			g_tag = -1; g_int = -1; eventpp::CallbackList<void(const Base0 &)> l;
			l.append(eventpp::argumentAdapter<void(const Derived0 &)>([](const Derived0 & d) { g_tag = d.tag; g_int = d.extra; }));
			Derived0 d; d.tag = v; d.extra = v * 3;
			l(d); desc = fmt("argumentAdapter const Base& -> const Derived& with tag %d", v);
			if(g_tag != v || g_int != v * 3) ctx.fail("argumentadapter-wrong", fmt("%s delivered tag %d extra %d", desc.c_str(), g_tag, g_int));
			ctx.obs((uint64_t)(g_tag + 100));
		}
		else if(which == 5) {
			// shared_ptr<Base> -> shared_ptr<Derived>
			g_tag = -1; eventpp::CallbackList<void(std::shared_ptr<Base0>)> l;
			l.append(eventpp::argumentAdapter<void(std::shared_ptr<Derived0>)>([&](std::shared_ptr<Derived0> d) { g_tag = d->tag + d->extra; }));
			auto sp = std::make_shared<Derived0>(); sp->tag = v; sp->extra = 100;
			l(sp); desc = fmt("argumentAdapter shared_ptr<Base> -> shared_ptr<Derived> with tag %d", v);
			if(g_tag != v + 100 || sp.use_count() != 1) ctx.fail("argumentadapter-wrong", fmt("%s delivered %d, use_count afterwards %ld", desc.c_str(), g_tag, (long)sp.use_count()));
			ctx.obs((uint64_t)(g_tag + 100));
		}
		else {
			// conditionalFunctor inside an EventDispatcher, condition on the event argument; other listeners unaffected
			int a = 0, other = 0; eventpp::EventDispatcher<int, void(int)> d;
			d.appendListener(1, eventpp::conditionalFunctor([&](int) { ++a; }, [outcome](int x) { return outcome == 1 || (outcome >= 2 && x > 0); }));
			d.appendListener(1, [&](int) { ++other; });
			d.dispatch(1, v); desc = fmt("conditionalFunctor in EventDispatcher, kind %d, value %d", outcome, v);
			bool e = outcome == 1 || (outcome >= 2 && v > 0);
			if(a != (int)e || other != 1) ctx.fail("conditionalfunctor-wrong", fmt("%s: wrapped ran %d times (expected %d), plain listener %d times", desc.c_str(), a, (int)e, other));
			ctx.obs(a * 2 + other);
		}
		ctx.log(desc);
		b.stepEnd(fmt("done%d.%d.%d", which, v, outcome));
	}
};

template <typename H>
static void addBfsUnit(const std::string & name, int minTier, Cfg cfg, int dq, int dt) {
	Unit u; u.name = name; u.minTier = minTier;
	u.run = [=](Ctx & ctx, UnitReport & rep, int tier) {
		H h(ctx, cfg); BfsOptions o; o.keyIncludesLastOp = true; o.maxDepth = tier ? dt : dq; Bfs b(ctx, o);
		b.run([&](Bfs & bb) { h.body(bb); }, [&]() { h.after(); });
		fillBfsReport(rep, b.res); rep.str["config"] = fmt("%s filters<=%d listeners<=%d depth=%d", name.c_str(), cfg.maxFilters, cfg.maxListeners, o.maxDepth);
	};
	u.replay = [=](Ctx & ctx, const std::vector<int> & seq) { H h(ctx, cfg); replayBody(ctx, seq, [&](Bfs & bb) { h.body(bb); }, [&]() { h.after(); }); };
	units().push_back(u);
}
template <typename H>
static void addEnumUnit(const std::string & name) {
	Unit u; u.name = name; u.minTier = 0;
	u.run = [=](Ctx & ctx, UnitReport & rep, int) { H h(ctx); BfsOptions o; o.keyIncludesLastOp = true; o.maxDepth = 1; Bfs b(ctx, o); b.run([&](Bfs & bb) { h.body(bb); }, nullptr); fillBfsReport(rep, b.res); rep.str["config"] = name + ": complete enumeration of a finite input domain"; };
	u.replay = [=](Ctx & ctx, const std::vector<int> & seq) { H h(ctx); replayBody(ctx, seq, [&](Bfs & bb) { h.body(bb); }, nullptr); };
	units().push_back(u);
}

#ifndef VERIF_SUB
#define VERIF_SUB -1
#endif
#define SEL(s) (VERIF_SUB < 0 || VERIF_SUB == (s))
using ST = eventpp::SingleThreading;
using MT = eventpp::MultipleThreading;
static struct Register {
	Register() {
		Cfg c; Cfg cq = c; cq.queue = true; Cfg c2 = c; c2.twoMixins = true; c2.maxFilters = 2;
		(void)cq; (void)c2;
#if SEL(0)
		addBfsUnit<Harness<eventpp::EventDispatcher<int, Proto<0>::Sig, PolF<ST> >, 0> >("C12/EventDispatcher/by-value", 0, c, 5, 9);
		addBfsUnit<Harness<eventpp::EventDispatcher<int, Proto<1>::Sig, PolF<MT> >, 1> >("C12/EventDispatcher/mutable-ref", 0, c, 5, 9);
#endif
#if SEL(1)
		addBfsUnit<Harness<eventpp::EventDispatcher<int, Proto<2>::Sig, PolF<ST> >, 2> >("C12/EventDispatcher/const-ref", 0, c, 5, 9);
		addBfsUnit<Harness<eventpp::EventDispatcher<int, Proto<0>::Sig, PolF2<ST> >, 0> >("C12/EventDispatcher/two-mixins", 0, c2, 5, 9);
#endif
#if SEL(2)
		addBfsUnit<Harness<eventpp::EventQueue<int, Proto<0>::Sig, PolF<MT> >, 0> >("C12/EventQueue/by-value", 0, cq, 4, 7);
		{ Cfg ch = c; ch.sigPrefix = "hookless-mixin-first/"; ch.maxFilters = 2;
		  addBfsUnit<Harness<eventpp::EventDispatcher<int, Proto<0>::Sig, PolHooklessFirst<ST> >, 0> >("C12/EventDispatcher/hookless-mixin-before-filter", 0, ch, 3, 4); }
#endif
#if SEL(3)
		addBfsUnit<Harness<eventpp::EventQueue<int, Proto<2>::Sig, PolF<ST> >, 2> >("C12/EventQueue/const-ref", 0, cq, 4, 7);
#endif
#if SEL(4)
		addEnumUnit<ContinueHarness>("C12/canContinueInvoking");
		addEnumUnit<HeterFilterHarness>("C12/HeterEventDispatcher/MixinHeterFilter");
		addEnumUnit<UtilHarness>("C12/conditionalFunctor+argumentAdapter");
#endif
	}
} reg;

VERIF_MAIN("filters")
