// Bounded-exhaustive enumeration for C18: AnyId equality, ordering and hash agree, over all pairs and
// triples of a mixed-type value alphabet, three digesters (std::hash, a 1-bit digester forcing collisions,
// a constant digester), two storages (EmptyAnyStorage; a value-storing storage with == and <), and
// EventDispatcher lookups through std::map and std::unordered_map.
#define VERIF_DEFINE_HOOKS
#include "../fw/core.h"
#include "../fw/ledger.h"
#include "../fw/sched.h"
#include <eventpp/utilities/anyid.h>
#include <eventpp/eventdispatcher.h>
#include <map>
#include <unordered_map>

using namespace verif;

enum class Color { Red = 1 };
namespace std { template <> struct hash<Color> { size_t operator()(Color c) const { return (size_t)c; } }; }

template <typename T> struct OneBit { size_t operator()(const T & v) const { return std::hash<T>()(v) & 1u; } };
template <typename T> struct Constant { size_t operator()(const T &) const { return 7; } };

// the primary template accepts ANY type (an opaque object): storages and digesters built on it are constructible from
// whatever the library hands them, like std::any - a library that wraps the wrong object then shows as a wrong value,
// not as a compile error of the harness
template <typename T> struct TypeTag { enum { value = 9 }; static std::string repr(const T &) { return "?"; } };
template <> struct TypeTag<int> { enum { value = 1 }; static std::string repr(int v) { return std::to_string(v); } };
template <> struct TypeTag<long> { enum { value = 2 }; static std::string repr(long v) { return std::to_string(v); } };
template <> struct TypeTag<char> { enum { value = 3 }; static std::string repr(char v) { return std::to_string((int)v); } };
template <> struct TypeTag<std::string> { enum { value = 4 }; static std::string repr(const std::string & v) { return v; } };
template <> struct TypeTag<Color> { enum { value = 5 }; static std::string repr(Color v) { return std::to_string((int)v); } };

// digesters whose digest type is NOT std::size_t:
//  - a two-word digest (type tag, value hash) that converts to size_t lossily (only the value word): ids of different
//    types with equal value words have unequal digests but equal hashes;
//  - a textual digest (std::string), not convertible to size_t at all (hashed through std::hash<std::string>)
struct WideDigest {
	std::size_t type, val;
	operator std::size_t() const { return val; }
	bool operator==(const WideDigest & o) const { return type == o.type && val == o.val; }
	bool operator<(const WideDigest & o) const { return type != o.type ? type < o.type : val < o.val; }
};
template <typename T> struct Wide { WideDigest operator()(const T & v) const { return WideDigest{(std::size_t)TypeTag<T>::value, std::hash<std::string>()(TypeTag<T>::repr(v)) & 3u}; } };
template <typename T> struct Textual { std::string operator()(const T & v) const { return std::string(1, (char)('A' + TypeTag<T>::value)) + TypeTag<T>::repr(v); } };

struct TaggedValue {
	int type; std::string repr;
	TaggedValue() : type(0) {}
	template <typename T> TaggedValue(const T & v) : type(TypeTag<T>::value), repr(TypeTag<T>::repr(v)) {}
	bool operator==(const TaggedValue & o) const { return type == o.type && repr == o.repr; }
	bool operator<(const TaggedValue & o) const { return type != o.type ? type < o.type : repr < o.repr; }
};

// a storage that keeps only the textual form: values of DIFFERENT types collapse to equal stored copies (int 1, long 1,
// char 1, enum 1, string "1") while their digests may differ - equality still has to agree with ordering and hashing
struct TextValue {
	std::string repr;
	TextValue() {}
	template <typename T> TextValue(const T & v) : repr(TypeTag<T>::repr(v)) {}
	bool operator==(const TextValue & o) const { return repr == o.repr; }
	bool operator<(const TextValue & o) const { return repr < o.repr; }
};

// the same textual storage with C-style comparison operators returning int (merely convertible to bool)
struct IntOpsValue {
	std::string repr;
	IntOpsValue() {}
	template <typename T> IntOpsValue(const T & v) : repr(TypeTag<T>::repr(v)) {}
	int operator==(const IntOpsValue & o) const { return repr == o.repr ? 1 : 0; }
	int operator<(const IntOpsValue & o) const { return repr < o.repr ? 1 : 0; }
};

template <typename Id> struct OrderedPol { using Threading = eventpp::SingleThreading; template <typename K, typename V> using Map = std::map<K, V>; };
template <typename Id> struct HashedPol { using Threading = eventpp::SingleThreading; template <typename K, typename V> using Map = std::unordered_map<K, V>; };

template <typename Id, int ValueStoring>   // 0 = no storage, 1 = type-tagged value, 2 = textual value (collapses across types)
static void runConfig(Ctx & ctx, const char * cfgName, long & evals) {
	std::vector<Id> ids; std::vector<std::string> names; std::vector<TaggedValue> tv;
	#define ADD(T, V, NAME) ids.push_back(Id((T)(V))); names.push_back(NAME); tv.push_back(TaggedValue((T)(V)));
	ADD(int, 0, "int 0") ADD(int, 1, "int 1") ADD(int, 2, "int 2")
	ADD(long, 0, "long 0") ADD(long, 1, "long 1") ADD(long, 2, "long 2")
	ADD(char, 0, "char 0") ADD(char, 1, "char 1") ADD(char, 2, "char 2")
	ids.push_back(Id(std::string(""))); names.push_back("string \"\""); tv.push_back(TaggedValue(std::string("")));
	ids.push_back(Id(std::string("a"))); names.push_back("string \"a\""); tv.push_back(TaggedValue(std::string("a")));
	ids.push_back(Id(std::string("b"))); names.push_back("string \"b\""); tv.push_back(TaggedValue(std::string("b")));
	ids.push_back(Id(std::string("ab"))); names.push_back("string \"ab\""); tv.push_back(TaggedValue(std::string("ab")));
	ids.push_back(Id(std::string("1"))); names.push_back("string \"1\""); tv.push_back(TaggedValue(std::string("1")));
	ADD(Color, Color::Red, "enum Red(1)")
	// a second, separately built id of an equal value
	ADD(int, 1, "int 1 (second instance)")
	#undef ADD
	size_t n = ids.size();
	std::hash<Id> H;
	auto where = [&](size_t i, size_t j) { return fmt("%s: a = %s, b = %s", cfgName, names[i].c_str(), names[j].c_str()); };
	for(size_t i = 0; i < n; ++i) {
		++evals;
		if(!(ids[i] == ids[i])) ctx.fail("equality-not-reflexive", fmt("%s: %s != itself", cfgName, names[i].c_str()));
		if(ids[i] < ids[i]) ctx.fail("less-not-irreflexive", fmt("%s: %s < itself", cfgName, names[i].c_str()));
		for(size_t j = 0; j < n; ++j) {
			++evals;
			bool eq = ids[i] == ids[j], lt = ids[i] < ids[j], gt = ids[j] < ids[i];
			ctx.obs((uint64_t)(eq * 4 + lt * 2 + gt));
			ctx.outcomes.insert(mix64(hashStr(cfgName), (uint64_t)(eq * 8 + lt * 4 + gt * 2 + (ids[i].getDigest() == ids[j].getDigest()))));
			if(eq != (ids[j] == ids[i])) ctx.fail("equality-not-symmetric", where(i, j));
			if(lt && gt) ctx.fail("less-not-asymmetric", where(i, j));
			if((!lt && !gt) != eq) ctx.fail("incomparable-differs-from-equal", where(i, j) + fmt(": a==b is %d but a<b is %d and b<a is %d", (int)eq, (int)lt, (int)gt));
			if(eq && H(ids[i]) != H(ids[j])) ctx.fail("equal-ids-hash-differently", where(i, j));
			bool digestEq = ids[i].getDigest() == ids[j].getDigest();
			bool storedEq = ValueStoring == 2 ? tv[i].repr == tv[j].repr : tv[i] == tv[j];
			if(ValueStoring) { if(eq != (digestEq && storedEq)) ctx.fail("value-storage-equality-wrong", where(i, j) + fmt(": a==b is %d, digests %sequal, stored values %sequal", (int)eq, digestEq ? "" : "un", storedEq ? "" : "un")); }
			else if(eq != digestEq) ctx.fail("digest-equality-wrong", where(i, j) + fmt(": a==b is %d but digests are %sequal", (int)eq, digestEq ? "" : "un"));
			for(size_t k = 0; k < n; ++k) {
				++evals;
				bool eqjk = ids[j] == ids[k], eqik = ids[i] == ids[k];
				if(eq && eqjk && !eqik) ctx.fail("equality-not-transitive", where(i, j) + ", c = " + names[k]);
				bool ltjk = ids[j] < ids[k], ltik = ids[i] < ids[k];
				if(lt && ltjk && !ltik) ctx.fail("less-not-transitive", where(i, j) + ", c = " + names[k]);
				bool incij = !lt && !gt, incjk = !ltjk && !(ids[k] < ids[j]), incik = !ltik && !(ids[k] < ids[i]);
				if(incij && incjk && !incik) ctx.fail("incomparability-not-transitive", where(i, j) + ", c = " + names[k]);
			}
		}
	}
	// a listener registered under a is reached by dispatch(b) iff a == b, in ordered and hashed maps
	for(size_t i = 0; i < n; ++i) for(size_t j = 0; j < n; ++j) {
		++evals;
		int hitO = 0, hitH = 0;
		eventpp::EventDispatcher<Id, void(), OrderedPol<Id> > dO; dO.appendListener(ids[i], [&]() { ++hitO; }); dO.dispatch(ids[j]);
		eventpp::EventDispatcher<Id, void(), HashedPol<Id> > dH; dH.appendListener(ids[i], [&]() { ++hitH; }); dH.dispatch(ids[j]);
		bool eq = ids[i] == ids[j];
		if((hitO == 1) != eq) ctx.fail("ordered-map-lookup-disagrees", where(i, j) + fmt(": listener %sreached although a==b is %d", hitO ? "" : "not ", (int)eq));
		if((hitH == 1) != eq) ctx.fail("hashed-map-lookup-disagrees", where(i, j) + fmt(": listener %sreached although a==b is %d", hitH ? "" : "not ", (int)eq));
		// several keys in one map: every id registered, dispatch by b reaches exactly the class of b
	}
	{
		std::vector<int> hits(n, 0);
		eventpp::EventDispatcher<Id, void(), OrderedPol<Id> > dO; eventpp::EventDispatcher<Id, void(), HashedPol<Id> > dH;
		for(size_t i = 0; i < n; ++i) { dO.appendListener(ids[i], [&hits, i]() { hits[i] += 1; }); dH.appendListener(ids[i], [&hits, i]() { hits[i] += 100; }); }
		for(size_t j = 0; j < n; ++j) {
			++evals;
			std::fill(hits.begin(), hits.end(), 0);
			dO.dispatch(ids[j]); dH.dispatch(ids[j]);
			for(size_t i = 0; i < n; ++i) { bool eq = ids[i] == ids[j]; if(hits[i] != (eq ? 101 : 0)) ctx.fail("full-map-lookup-disagrees", where(i, j) + fmt(": hits %d with a==b %d", hits[i], (int)eq)); }
		}
	}
}

static void runAll(Ctx & ctx, UnitReport & rep) {
	long evals = 0;
	ctx.executions = 0;
	runConfig<eventpp::AnyId<std::hash, eventpp::EmptyAnyStorage>, 0>(ctx, "AnyId<std::hash, EmptyAnyStorage>", evals);
	runConfig<eventpp::AnyId<OneBit, eventpp::EmptyAnyStorage>, 0>(ctx, "AnyId<1-bit digester, EmptyAnyStorage>", evals);
	runConfig<eventpp::AnyId<Constant, eventpp::EmptyAnyStorage>, 0>(ctx, "AnyId<constant digester, EmptyAnyStorage>", evals);
	runConfig<eventpp::AnyId<std::hash, TaggedValue>, 1>(ctx, "AnyId<std::hash, value storage>", evals);
	runConfig<eventpp::AnyId<OneBit, TaggedValue>, 1>(ctx, "AnyId<1-bit digester, value storage>", evals);
	runConfig<eventpp::AnyId<Constant, TaggedValue>, 1>(ctx, "AnyId<constant digester, value storage>", evals);
	runConfig<eventpp::AnyId<std::hash, TextValue>, 2>(ctx, "AnyId<std::hash, textual storage>", evals);
	runConfig<eventpp::AnyId<OneBit, TextValue>, 2>(ctx, "AnyId<1-bit digester, textual storage>", evals);
	runConfig<eventpp::AnyId<Constant, TextValue>, 2>(ctx, "AnyId<constant digester, textual storage>", evals);
	runConfig<eventpp::AnyId<OneBit, IntOpsValue>, 2>(ctx, "AnyId<1-bit digester, textual storage with int-returning operators>", evals);
	runConfig<eventpp::AnyId<Constant, IntOpsValue>, 2>(ctx, "AnyId<constant digester, textual storage with int-returning operators>", evals);
	runConfig<eventpp::AnyId<Wide, eventpp::EmptyAnyStorage>, 0>(ctx, "AnyId<two-word digest (lossy size_t conversion), EmptyAnyStorage>", evals);
	runConfig<eventpp::AnyId<Wide, TextValue>, 2>(ctx, "AnyId<two-word digest (lossy size_t conversion), textual storage>", evals);
	runConfig<eventpp::AnyId<Textual, eventpp::EmptyAnyStorage>, 0>(ctx, "AnyId<std::string digest, EmptyAnyStorage>", evals);
	runConfig<eventpp::AnyId<Textual, TaggedValue>, 1>(ctx, "AnyId<std::string digest, value storage>", evals);
	ctx.executions = evals;
	rep.num["executions"] = (double)evals;
	rep.num["configurations"] = 15;
	ctx.samples.push_back("AnyId<1-bit digester, value storage>: a = int 1, b = long 1 (digest collision, distinct ids); all 16^2 pairs and 16^3 triples per configuration");
}

static struct Register {
	Register() {
		Unit u; u.name = "C18/anyid"; u.minTier = 0;
		u.run = [](Ctx & ctx, UnitReport & rep, int) { ctx.ex.beginExecution(); runAll(ctx, rep); rep.str["config"] = "16 values x 5 digesters (3 with size_t digests, a two-word digest converting lossily to size_t, a std::string digest) x up to 3 storages: all pairs, all triples, dispatcher lookups in std::map and std::unordered_map"; };
		u.replay = [](Ctx & ctx, const std::vector<int> &) { UnitReport r; ctx.tracing = true; runAll(ctx, r); };
		units().push_back(u);
	}
} reg;

VERIF_MAIN("anyid")
