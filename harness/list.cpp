// Engine H harness for CallbackList and the per-event listener lists of
// EventDispatcher: flat histories (C01), re-entrant programs (C02), ledger
// oracle (C08, list part), generation-counter wrap placed everywhere (C19).
//
// A lock-step reference model (plain vectors) is the oracle; the canonical key
// of a state is model ⊕ snapshot of the implementation's private links.
#define VERIF_DEFINE_HOOKS
#include "../fw/core.h"
#include "../fw/ledger.h"
#include "../fw/sched.h"
#include <eventpp/callbacklist.h>
#include <eventpp/eventdispatcher.h>
#include <eventpp/utilities/eventutil.h>
#include <climits>
#include <string>

using namespace verif;

static const char * const LONGSTR = "a string that is certainly longer than any small string buffer";

struct HarnessBase {
	virtual ~HarnessBase() {}
	virtual void onCall(int id, int v, const std::string & s) = 0;
};
static HarnessBase * g_h = nullptr;

// The callback object. Comparable (by tag) so that it can also be used as Policies::Callback.
// how many times the harness has seen callback id run (reset at the start of every execution)
static std::vector<int> & fnCalls() { static std::vector<int> v; return v; }
struct Fn : TrackedBase<TC_CALLBACK> {
	int tag;
	mutable int calls;      // the callback's own state: the list has to keep invoking the object it stored, not copies of it
	explicit Fn(int id_ = 0, int tag_ = 0) : TrackedBase<TC_CALLBACK>(id_), tag(tag_), calls(0) {}
	void operator()(int v, const std::string & s) const {
		int myId = id;
		if(!alive()) return;
		if(myId >= 0) {
			if((int)fnCalls().size() <= myId) fnCalls().resize(myId + 1, 0);
			++calls; ++fnCalls()[myId];
			if(calls != fnCalls()[myId]) gctx()->fail("callback-state-lost", fmt("callback %d is at its invocation number %d, the list has run it %d times: it is not the stored callback object that runs", myId, calls, fnCalls()[myId]));
		}
		g_h->onCall(myId, v, s);
		// the callback object must still be alive when its own invocation ends
		if(!ledger().touch(this, TC_CALLBACK, myId)) gctx()->fail("callback-destroyed-while-running", fmt("callback %d was destroyed before its own invocation returned", myId));
	}
	bool operator==(const Fn & o) const { return tag == o.tag; }
};

template <typename Threading_>
struct PolFunction { using Threading = Threading_; };
template <typename Threading_>
struct PolComparable { using Threading = Threading_; using Callback = Fn; };
// Map policy variants for the configuration product (C20)
template <typename K, typename V> struct UserMapT : std::map<K, V> {};
template <typename Threading_> struct PolOrderedMap { using Threading = Threading_; template <typename K, typename V> using Map = std::map<K, V>; };
template <typename Threading_> struct PolUserMap { using Threading = Threading_; template <typename K, typename V> using Map = UserMapT<K, V>; };

struct Cfg {
	int K = 3;            // cap on live callbacks
	int nLists = 1;
	int maxNest = 3;      // nesting depth of invocations
	bool nested = false;  // callbacks take PROG choices
	bool comparable = false;
	int counterPreset = -1;   // >=0: currentCounter starts at UINT_MAX - preset
	bool ledgerOnly = false;  // C08: only the ledger clauses are reported
};

// ------------------------------------------------------------------ targets
template <typename Policies>
struct ListTarget {
	using CL = eventpp::CallbackList<void(int, const std::string &), Policies>;
	using Handle = typename CL::Handle;
	using Callback = typename CL::Callback;
	CL lists[2];
	static const char * name() { return "CallbackList"; }
	CL & raw(int l) { return lists[l]; }
	Handle append(int l, const Fn & f) { return lists[l].append(Callback(f)); }
	Handle prepend(int l, const Fn & f) { return lists[l].prepend(Callback(f)); }
	Handle insert(int l, const Fn & f, const Handle & b) { return lists[l].insert(Callback(f), b); }
	bool remove(int l, const Handle & h) { return lists[l].remove(h); }
	bool ownsHandle(int l, const Handle & h) { return lists[l].ownsHandle(h); }
	bool empty(int l) { bool e = lists[l].empty(); bool b = (bool)lists[l]; if(b == e) gctx()->fail("empty-vs-bool", "empty() and operator bool agree (they must be opposite)"); return e; }
	void invoke(int l, int v, const std::string & s) { lists[l](v, s); }
	template <typename F> void forEach(int l, F && f) { lists[l].forEach(f); }
	template <typename F> bool forEachIf(int l, F && f) { return lists[l].forEachIf(f); }
	template <typename C = Callback> typename std::enable_if<std::is_same<C, Fn>::value, bool>::type utilHas(int l, const Fn & f) { return eventpp::hasListener(lists[l], f); }
	template <typename C = Callback> typename std::enable_if<!std::is_same<C, Fn>::value, bool>::type utilHas(int, const Fn &) { return false; }
	bool utilHasAny(int l) { return eventpp::hasAnyListener(lists[l]); }
	template <typename C = Callback> typename std::enable_if<std::is_same<C, Fn>::value, bool>::type utilRemove(int l, const Fn & f) { return eventpp::removeListener(lists[l], f); }
	template <typename C = Callback> typename std::enable_if<!std::is_same<C, Fn>::value, bool>::type utilRemove(int, const Fn &) { return false; }
#ifndef VERIF_NO_PRIVATE
	void presetCounter(unsigned v) { lists[0].currentCounter.store(v); lists[1].currentCounter.store(v); }
#else
	void presetCounter(unsigned) {}
#endif
	CL * find(int l) { return &lists[l]; }
};

template <typename Policies>
struct DispTarget {
	using D = eventpp::EventDispatcher<int, void(int, const std::string &), Policies>;
	using CL = eventpp::CallbackList<void(int, const std::string &), Policies>;
	using Handle = typename D::Handle;
	using Callback = typename D::Callback;
	D d;
	static const char * name() { return "EventDispatcher"; }
	static int key(int l) { return 10 + 10 * l; }
	Handle append(int l, const Fn & f) { return d.appendListener(key(l), Callback(f)); }
	Handle prepend(int l, const Fn & f) { return d.prependListener(key(l), Callback(f)); }
	Handle insert(int l, const Fn & f, const Handle & b) { return d.insertListener(key(l), Callback(f), b); }
	bool remove(int l, const Handle & h) { return d.removeListener(key(l), h); }
	bool ownsHandle(int l, const Handle & h) { return d.ownsHandle(key(l), h); }
	bool empty(int l) { return !d.hasAnyListener(key(l)); }
	void invoke(int l, int v, const std::string & s) { d.dispatch(key(l), v, s); }
	template <typename F> void forEach(int l, F && f) { d.forEach(key(l), f); }
	template <typename F> bool forEachIf(int l, F && f) { return d.forEachIf(key(l), f); }
	template <typename C = Callback> typename std::enable_if<std::is_same<C, Fn>::value, bool>::type utilHas(int l, const Fn & f) { return eventpp::hasListener(d, key(l), f); }
	template <typename C = Callback> typename std::enable_if<!std::is_same<C, Fn>::value, bool>::type utilHas(int, const Fn &) { return false; }
	bool utilHasAny(int l) { return eventpp::hasAnyListener(d, key(l)); }
	template <typename C = Callback> typename std::enable_if<std::is_same<C, Fn>::value, bool>::type utilRemove(int l, const Fn & f) { return eventpp::removeListener(d, key(l), f); }
	template <typename C = Callback> typename std::enable_if<!std::is_same<C, Fn>::value, bool>::type utilRemove(int, const Fn &) { return false; }
	void presetCounter(unsigned) {}
#ifndef VERIF_NO_PRIVATE
	CL * find(int l) { auto it = d.eventCallbackListMap.find(key(l)); return it == d.eventCallbackListMap.end() ? nullptr : &it->second; }
#else
	CL * find(int) { return nullptr; }
#endif
};

// ------------------------------------------------------------------ harness
template <typename Target>
struct Harness : HarnessBase {
	using Handle = typename Target::Handle;
	using CL = typename Target::CL;
	Cfg cfg;
	Target * t = nullptr;
	Ctx & ctx;

	// model
	std::vector<int> order[2];                 // alive ids in list order
	std::vector<Handle> handleOf;              // by id
	std::vector<int> listOf, tagOf;            // by id
	std::vector<char> aliveM;                  // by id
	int slot[4]; int adds = 0;
	struct Frame { int list; std::vector<int> snap; size_t idx; int v; std::string s; bool relaxed; int firstNewId; };
	std::vector<Frame> frames;
	unsigned lastCounter = 0;
	bool postWrap = false;

	Harness(Ctx & c, const Cfg & cf) : cfg(cf), ctx(c) {}

	void report(const std::string & clause, const std::string & msg) {
		if(cfg.ledgerOnly && clause.compare(0, 6, "ledger") != 0 && clause != "callback-destroyed-while-running") {
			// in ledger-only mode a behavioural disagreement is not this property's verdict; the state is abandoned
			ctx.failed = true; ctx.log("(behavioural disagreement ignored in ledger-only mode: " + clause + ")");
			return;
		}
		ctx.fail(clause, msg);
	}

	int liveTotal() const { return (int)(order[0].size() + order[1].size()); }
	bool isAlive(int id) const { return id >= 0 && id < (int)aliveM.size() && aliveM[id]; }
	int pos(int l, int id) const { for(size_t i = 0; i < order[l].size(); ++i) if(order[l][i] == id) return (int)i; return -1; }

	// ---- wrap detection for C19's single relaxation
#ifndef VERIF_NO_PRIVATE
	unsigned readCounter(int l) { CL * c = t->find(l); return c ? (unsigned)c->currentCounter.load() : 0u; }
#else
	unsigned readCounter(int) { return 0u; }
#endif
	void noteAdd(int l, unsigned before) {
		unsigned after = readCounter(l);
		if(after < before) {
			// the generation counter wrapped during this addition: invocations in progress may see later additions
			for(auto & f : frames) if(f.list == l) f.relaxed = true;
			ctx.log("(generation counter wrapped)");
		}
	}

	// ---- model + implementation operations (used at top level and from inside callbacks)
	int newId(int l) {
		int id = (int)handleOf.size();
		handleOf.push_back(Handle()); listOf.push_back(l); tagOf.push_back(id % 2); aliveM.push_back(1);
		return id;
	}
	void bind(int id, const Handle & h) {
		handleOf[id] = h;
		slot[adds % 4] = id; ++adds;
		if(!h) report("handle-dead-after-add", fmt("handle returned for new callback %d is already expired", id));
	}
	void doAppend(int l) {
		int id = newId(l); unsigned c0 = readCounter(l);
		ctx.log(fmt("append(L%d)->#%d", l, id));
		Handle h = t->append(l, Fn(id, tagOf[id]));
		order[l].push_back(id); bind(id, h); noteAdd(l, c0);
	}
	void doPrepend(int l) {
		int id = newId(l); unsigned c0 = readCounter(l);
		ctx.log(fmt("prepend(L%d)->#%d", l, id));
		Handle h = t->prepend(l, Fn(id, tagOf[id]));
		order[l].insert(order[l].begin(), id); bind(id, h); noteAdd(l, c0);
	}
	// before = id of the referenced callback, or -1 for an empty handle (then list l)
	void doInsert(int l, int before) {
		Handle bh; int tl = l;
		if(before >= 0) { bh = handleOf[before]; tl = listOf[before]; }
		int id = newId(tl); unsigned c0 = readCounter(tl);
		ctx.log(fmt("insert(L%d, before %s)->#%d", tl, before >= 0 ? fmt("#%d%s", before, isAlive(before) ? "" : "(removed)").c_str() : "empty-handle", id));
		Handle h = t->insert(tl, Fn(id, tagOf[id]), bh);
		int p = (before >= 0 && isAlive(before)) ? pos(tl, before) : -1;
		if(p >= 0) order[tl].insert(order[tl].begin() + p, id); else order[tl].push_back(id);
		bind(id, h); noteAdd(tl, c0);
	}
	void doRemove(int id) {
		int l = listOf[id];
		bool expect = isAlive(id);
		ctx.log(fmt("remove(#%d%s)", id, expect ? "" : " already removed"));
		bool got = t->remove(l, handleOf[id]);
		ctx.obs(got);
		if(expect) { order[l].erase(order[l].begin() + pos(l, id)); aliveM[id] = 0; }
		if(got != expect) report(expect ? "remove-live-returned-false" : "remove-stale-returned-true",
			fmt("remove(#%d) returned %s but the callback %s", id, got ? "true" : "false", expect ? "was in the list" : "had already been removed"));
	}
	void doOwns(int id) {
		int l = listOf[id];
		bool expect = isAlive(id);
		bool got = t->ownsHandle(l, handleOf[id]);
		ctx.log(fmt("ownsHandle(#%d)=%d", id, (int)got));
		ctx.obs(got);
		if(got != expect) report(expect ? "ownshandle-live-false" : "ownshandle-stale-true",
			fmt("ownsHandle(#%d) returned %s but the callback %s", id, got ? "true" : "false", expect ? "is in the list" : "has been removed"));
	}
	void doEmpty(int l) {
		bool got = t->empty(l); ctx.obs(got);
		ctx.log(fmt("empty(L%d)=%d", l, (int)got));
		if(got != order[l].empty()) report("empty-wrong", fmt("empty() returned %d but the list holds %zu callbacks", (int)got, order[l].size()));
	}
	void pushFrame(int l, int v, const std::string & s) {
		Frame f; f.list = l; f.snap = order[l]; f.idx = 0; f.v = v; f.s = s; f.relaxed = false; f.firstNewId = (int)handleOf.size();
		frames.push_back(f);
	}
	void popFrame(const char * what) {
		Frame & f = frames.back();
		while(f.idx < f.snap.size() && !isAlive(f.snap[f.idx])) ++f.idx;
		if(f.idx < f.snap.size() && !ctx.failed) report("callback-missed", fmt("%s returned without calling callback #%d, which was in the list for its whole duration", what, f.snap[f.idx]));
		frames.pop_back();
	}
	void doInvoke(int l, int variant) {
		int v = variant ? 0 : 7; std::string s = variant ? "" : LONGSTR;
		ctx.log(fmt("invoke(L%d,%d)", l, v));
		pushFrame(l, v, s);
		t->invoke(l, v, s);
		popFrame("invocation");
		ctx.log("invoke-done");
	}
	// the model's view of "the next callback this traversal must reach"
	bool expectNext(int id, const char * what) {
		if(frames.empty()) { report("call-outside-invocation", fmt("callback #%d ran while no invocation was in progress", id)); return false; }
		Frame & f = frames.back();
		while(f.idx < f.snap.size() && !isAlive(f.snap[f.idx])) ++f.idx;
		if(f.idx < f.snap.size() && f.snap[f.idx] == id) { ++f.idx; return true; }
		if(f.relaxed && id >= f.firstNewId && isAlive(id) && listOf[id] == f.list) return true;   // C19 relaxation
		if(ctx.failed) return false;
		std::string exp = f.idx < f.snap.size() ? fmt("#%d", f.snap[f.idx]) : "none";
		const char * clause = "callback-unexpected";
		if(!isAlive(id)) clause = "callback-removed-but-called";
		else if(id >= f.firstNewId) clause = "callback-added-during-invocation-called";
		else if(std::find(f.snap.begin(), f.snap.begin() + std::min(f.idx, f.snap.size()), id) != f.snap.begin() + std::min(f.idx, f.snap.size())) clause = "callback-called-twice";
		report(clause, fmt("%s reached #%d, expected %s", what, id, exp.c_str()));
		return false;
	}
	void doForEach(int l, int kind) {
		// kind 0: (handle, callback) functor; 1: (callback) functor; 2..4: forEachIf stopping after j = kind-2 calls
		ctx.log(fmt("forEach(L%d,kind%d)", l, kind));
		pushFrame(l, -1, "");
		int calls = 0;
		if(kind == 0) {
			t->forEach(l, [&](const Handle & h, const typename Target::Callback & cb) { onEnum(&h, cb); ++calls; });
			popFrame("forEach");
		}
		else if(kind == 1) {
			t->forEach(l, [&](const typename Target::Callback & cb) { onEnum(nullptr, cb); ++calls; });
			popFrame("forEach");
		}
		else {
			int stopAfter = kind - 2;
			size_t n = order[l].size();
			bool r = t->forEachIf(l, [&](const Handle & h, const typename Target::Callback & cb) -> bool { onEnum(&h, cb); return calls++ < stopAfter; });
			bool expect = !((int)n > stopAfter);
			ctx.obs(r);
			if(r != expect && !ctx.failed) report("foreachif-result", fmt("forEachIf returned %d, expected %d (list of %zu, functor refuses after %d)", (int)r, (int)expect, n, stopAfter));
			if((int)n > stopAfter) {
				// stopped early: exactly stopAfter+1 calls, the rest legitimately unvisited
				if(calls != stopAfter + 1 && !ctx.failed) report("foreachif-continued", fmt("forEachIf made %d calls after the functor returned false at call %d", calls, stopAfter + 1));
				frames.pop_back();
			}
			else popFrame("forEachIf");
		}
	}
	template <typename CB>
	void onEnum(const Handle * h, const CB & cb) {
		const Fn * fn = fnOf(cb);
		if(!fn) { report("enum-empty-callback", "enumeration handed out an empty callback"); return; }
		int id = fn->id;
		ctx.obs(1000 + id);
		ctx.log(fmt("  enum #%d", id));
		if(!expectNext(id, "enumeration")) return;
		if(h) {
			const Handle & mine = handleOf[id];
			if(h->owner_before(mine) || mine.owner_before(*h)) report("enum-handle-mismatch", fmt("handle passed with callback #%d does not name that callback", id));
		}
	}
	static const Fn * fnOf(const Fn & f) { return &f; }
	static const Fn * fnOf(const std::function<void(int, const std::string &)> & f) { return f.template target<Fn>(); }

	void doUtil(int l, int which) {
		// which: 0 has(tag0) 1 has(tag1) 2 hasAny 3 remove(tag0) 4 remove(tag1)
		int tag = which & 1;
		if(which == 2) {
			bool got = t->utilHasAny(l); ctx.obs(got);
			ctx.log(fmt("hasAnyListener(L%d)=%d", l, (int)got));
			if(got != !order[l].empty()) report("util-hasany", fmt("hasAnyListener returned %d with %zu callbacks in the list", (int)got, order[l].size()));
			return;
		}
		int first = -1;
		for(int id : order[l]) if(tagOf[id] == tag) { first = id; break; }
		if(which < 2) {
			bool got = t->utilHas(l, Fn(-1, tag)); ctx.obs(got);
			ctx.log(fmt("hasListener(L%d,tag%d)=%d", l, tag, (int)got));
			if(got != (first >= 0)) report("util-has", fmt("hasListener(tag %d) returned %d, model says %d", tag, (int)got, (int)(first >= 0)));
		}
		else {
			bool got = t->utilRemove(l, Fn(-1, tag)); ctx.obs(got);
			ctx.log(fmt("removeListener(L%d,tag%d)=%d", l, tag, (int)got));
			if(first >= 0) { order[l].erase(order[l].begin() + pos(l, first)); aliveM[first] = 0; }
			if(got != (first >= 0)) report("util-remove", fmt("removeListener(tag %d) returned %d, model says %d", tag, (int)got, (int)(first >= 0)));
		}
	}

	// ---- callbacks
	void onCall(int id, int v, const std::string & s) override {
		ctx.obs(2000 + id); ctx.obs(v); ctx.obsStr(s);
		ctx.log(fmt("  call #%d", id));
		if(!expectNext(id, "invocation")) return;
		size_t myFrame = frames.size() - 1;
		if(v != frames[myFrame].v || s != frames[myFrame].s) report("arguments-altered", fmt("callback #%d received (%d,'%s') instead of the invocation's arguments", id, v, s.c_str()));
		if(!cfg.nested || ctx.failed) return;
		for(;;) {
			int a = ctx.ex.choose(nestedMenu(), 1, K_PROG);
			if(a == 0) break;
			if(!nestedAction(a, id)) break;
			if(ctx.failed) break;
		}
	}
	int nestedMenu() const { return 1 + 2 * cfg.nLists + 1 + 4 + 1 + 4 + 1 + 4 + cfg.nLists * 3; }
	// returns false when the action is not applicable (treated as "return")
	bool nestedAction(int a, int self) {
		--a;
		int nl = cfg.nLists;
		if(a < nl) { if(liveTotal() >= cfg.K) return false; doAppend(a); return true; }
		a -= nl;
		if(a < nl) { if(liveTotal() >= cfg.K) return false; doPrepend(a); return true; }
		a -= nl;
		if(a == 0) { doRemove(self); return true; }
		a -= 1;
		if(a < 4) { if(slot[a] < 0) return false; doRemove(slot[a]); return true; }
		a -= 4;
		if(a == 0) { if(liveTotal() >= cfg.K) return false; doInsert(0, self); return true; }
		a -= 1;
		if(a < 4) { if(slot[a] < 0 || liveTotal() >= cfg.K) return false; doInsert(0, slot[a]); return true; }
		a -= 4;
		if(a == 0) { doOwns(self); return true; }
		a -= 1;
		if(a < 4) { if(slot[a] < 0) return false; doOwns(slot[a]); return true; }
		a -= 4;
		int l = a / 3, k = a % 3;
		if(k == 0) { doForEach(l, 0); return true; }
		if(k == 1) { doEmpty(l); return true; }
		if((int)frames.size() >= cfg.maxNest) return false;
		doInvoke(l, 1);
		return true;
	}

	// ---- top-level alphabet (simplest first)
	int topMenu() const { return cfg.nLists * 3 + 4 + 4 + cfg.nLists + 4 + cfg.nLists * 7 + (cfg.comparable ? cfg.nLists * 5 : 0); }
	void topOp(Bfs & b, int op) {
		int nl = cfg.nLists;
		if(op < nl) { if(liveTotal() >= cfg.K) b.skip(); doAppend(op); return; }
		op -= nl;
		if(op < nl) { if(liveTotal() >= cfg.K) b.skip(); doPrepend(op); return; }
		op -= nl;
		if(op < nl) { doInvoke(op, 0); return; }
		op -= nl;
		if(op < 4) { if(slot[op] < 0) b.skip(); doRemove(slot[op]); return; }
		op -= 4;
		if(op < 4) { if(slot[op] < 0 || liveTotal() >= cfg.K) b.skip(); doInsert(0, slot[op]); return; }
		op -= 4;
		if(op < nl) { if(liveTotal() >= cfg.K) b.skip(); doInsert(op, -1); return; }
		op -= nl;
		if(op < 4) { if(slot[op] < 0) b.skip(); doOwns(slot[op]); return; }
		op -= 4;
		if(op < nl * 7) {
			int l = op / 7, k = op % 7;
			if(k == 0) doEmpty(l);
			else if(k == 1) doInvoke(l, 1);
			else doForEach(l, k - 2);
			return;
		}
		op -= nl * 7;
		doUtil(op / 5, op % 5);
	}

	// ---- canonical key: model ⊕ implementation snapshot
	std::string key() {
		std::string k;
		std::map<const void *, int> idx;
		auto ix = [&](const void * p) -> int { if(!p) return -1; auto it = idx.find(p); if(it != idx.end()) return it->second; int n = (int)idx.size(); idx[p] = n; return n; };
		for(int l = 0; l < cfg.nLists; ++l) {
			k += fmt("L%d:", l);
#ifndef VERIF_NO_PRIVATE
			CL * c = t->find(l);
			if(!c) { k += "absent|"; continue; }
			unsigned cur = (unsigned)c->currentCounter.load();
			int guard = 0;
			for(auto n = c->head; n && guard < 24; n = n->next, ++guard) {
				k += fmt("%d%s%s%s,", ix(n.get()), n->counter == 0 ? "r" : "", n->counter > cur ? "h" : "", cfg.comparable ? (fnOf(n->callback)->tag ? "t" : "") : "");
			}
			k += fmt("T%d;B:", ix(c->tail.get()));
			guard = 0;
			for(auto n = c->tail; n && guard < 24; n = n->previous, ++guard) k += fmt("%d,", ix(n.get()));
			if(cfg.counterPreset >= 0) { unsigned dist = UINT_MAX - cur; k += dist < 24 ? fmt("W%u", dist) : "Wfar"; }
#else
			// private layout not available: the key is the model alone (coarser keys only merge more states)
			if(cfg.comparable) for(int id : order[l]) k += tagOf[id] ? "t" : "f";
#endif
			k += "|M:";
			for(int id : order[l]) { auto sp = handleOf[id].lock(); k += fmt("%d,", sp ? ix(sp.get()) : -9); }
			k += "|";
		}
		k += "S:";
		for(int i = 0; i < 4; ++i) {
			if(slot[i] < 0) { k += "e,"; continue; }
			auto sp = handleOf[slot[i]].lock();
			if(!sp) k += fmt("d%d,", listOf[slot[i]]);
			else k += fmt("%d%s,", ix(sp.get()), isAlive(slot[i]) ? "" : "x");
		}
		k += fmt("n%d", adds % 4);
		return k;
	}

	// ---- ledger clauses at quiescent points
	void quiescentChecks() {
		checkLedgerErrors(ctx, "quiescent");
		int want = liveTotal();
		int have = ledger().liveTotal(TC_CALLBACK);
		if(have != want && !ctx.failed) {
			ctx.fail(have > want ? "ledger-callback-not-released" : "ledger-callback-missing",
				fmt("%d callback objects are alive while the lists hold %d callbacks: %s", have, want, ledger().describeLive().c_str()));
		}
	}

	void body(Bfs & b) {
		ledger().reset(); fnCalls().clear();
		order[0].clear(); order[1].clear(); handleOf.clear(); listOf.clear(); tagOf.clear(); aliveM.clear(); frames.clear();
		for(int i = 0; i < 4; ++i) slot[i] = -1;
		adds = 0;
		g_h = this;
		Target target;
		t = &target;
		if(cfg.counterPreset >= 0) target.presetCounter(UINT_MAX - (unsigned)cfg.counterPreset);
		struct Clear { Harness * h; ~Clear() { h->handleOf.clear(); h->t = nullptr; } } clr{this};
		b.stepEnd(key());
		for(;;) {
			int op = b.chooseOp(topMenu());
			topOp(b, op);
			if(!frames.empty()) { frames.clear(); }
			quiescentChecks();
			b.stepEnd(key());
		}
	}
	void after() {
		checkLedgerErrors(ctx, "after destruction");
		if(ledger().liveAll() != 0 && !ctx.failed) ctx.fail("ledger-leak-after-destruction", "objects still alive after the container and all handles were destroyed: " + ledger().describeLive());
	}
};

// ------------------------------------------------------------------ units
template <typename Target>
static void addUnit(const std::string & name, int minTier, Cfg cfg, int depthQuick, int depthThorough, int budgetQuick, int budgetThorough) {
	Unit u;
	u.name = name; u.minTier = minTier;
	u.run = [=](Ctx & ctx, UnitReport & rep, int tier) {
		Harness<Target> h(ctx, cfg);
		BfsOptions o; o.maxDepth = tier ? depthThorough : depthQuick; o.innerBudget = tier ? budgetThorough : budgetQuick;
		Bfs b(ctx, o);
		b.run([&](Bfs & bb) { h.body(bb); }, [&]() { h.after(); });
		fillBfsReport(rep, b.res);
		rep.str["config"] = fmt("%s K=%d lists=%d nested=%d budget=%d depth=%d preset=%d", Target::name(), cfg.K, cfg.nLists, (int)cfg.nested, o.innerBudget, o.maxDepth, cfg.counterPreset);
	};
	u.replay = [=](Ctx & ctx, const std::vector<int> & seq) {
		Harness<Target> h(ctx, cfg);
		replayBody(ctx, seq, [&](Bfs & bb) { h.body(bb); }, [&]() { h.after(); });
	};
	units().push_back(u);
}

using ST = eventpp::SingleThreading;
using MT = eventpp::MultipleThreading;
using SpinT = eventpp::GeneralThreading<eventpp::SpinLock>;

#ifndef VERIF_ONLY
#define VERIF_ONLY 0
#endif
#ifndef VERIF_SUB
#define VERIF_SUB -1
#endif
// compile-time selection so that one property's units can be built as several small TUs in parallel
#define SEL(g, s) ((VERIF_ONLY == 0 || VERIF_ONLY == (g)) && (VERIF_SUB < 0 || VERIF_SUB == (s)))

static struct Register {
	Register() {
		// ---- C01: flat histories
		{ Cfg c; c.K = 4;
			Cfg cc = c; cc.comparable = true;
			Cfg cd = c; cd.nLists = 2; cd.K = 3;
			Cfg cdc = cd; cdc.comparable = true;
			(void)cc; (void)cd; (void)cdc;
#if SEL(1, 0)
			addUnit<ListTarget<PolFunction<ST> > >("C01/list/single/function", 0, c, 8, 40, 0, 0);
			addUnit<ListTarget<PolFunction<VThreading> > >("C01/list/vmutex/function", 0, c, 7, 40, 0, 0);
			{ Cfg c5 = c; c5.K = 5; addUnit<ListTarget<PolFunction<ST> > >("C01/list/single/function-K5", 1, c5, 8, 60, 0, 0); }
			{ Cfg c6 = c; c6.K = 6; addUnit<ListTarget<PolFunction<MT> > >("C01/list/stdmutex/function-K6", 1, c6, 8, 60, 0, 0); }
#endif
#if SEL(1, 1)
			addUnit<ListTarget<PolFunction<SpinT> > >("C01/list/spinlock/function", 0, c, 6, 40, 0, 0);
			addUnit<ListTarget<PolFunction<MT> > >("C01/list/stdmutex/function", 0, c, 6, 40, 0, 0);
#endif
#if SEL(1, 2)
			addUnit<ListTarget<PolComparable<ST> > >("C01/list/single/comparable", 0, cc, 7, 40, 0, 0);
			addUnit<ListTarget<PolComparable<VThreading> > >("C01/list/vmutex/comparable", 0, cc, 6, 40, 0, 0);
			{ Cfg c5 = cc; c5.K = 5; addUnit<ListTarget<PolComparable<ST> > >("C01/list/single/comparable-K5", 1, c5, 7, 60, 0, 0); }
#endif
#if SEL(1, 3)
			addUnit<DispTarget<PolFunction<ST> > >("C01/dispatcher/single/function", 0, cd, 6, 40, 0, 0);
			addUnit<DispTarget<PolComparable<VThreading> > >("C01/dispatcher/vmutex/comparable", 0, cdc, 5, 40, 0, 0);
			{ Cfg c4 = cd; c4.K = 4; addUnit<DispTarget<PolFunction<MT> > >("C01/dispatcher/stdmutex/function-K4", 1, c4, 6, 60, 0, 0); }
#endif
		}
		// ---- C02: re-entrant programs
		{ Cfg c; c.K = 3; c.nested = true;
			Cfg cd = c; cd.nLists = 2; (void)cd;
#if SEL(2, 0)
			addUnit<ListTarget<PolFunction<VThreading> > >("C02/list/vmutex/B2", 0, c, 4, 6, 2, 2);
			addUnit<ListTarget<PolFunction<VThreading> > >("C02/list/vmutex/B3", 1, c, 3, 3, 3, 3);
#endif
#if SEL(2, 1)
			addUnit<ListTarget<PolFunction<ST> > >("C02/list/single/B2", 0, c, 4, 6, 2, 2);
			addUnit<ListTarget<PolFunction<ST> > >("C02/list/single/B3", 1, c, 4, 4, 3, 3);
#endif
#if SEL(2, 2)
			addUnit<ListTarget<PolFunction<SpinT> > >("C02/list/spinlock", 0, c, 4, 5, 1, 2);
			addUnit<ListTarget<PolFunction<MT> > >("C02/list/stdmutex", 0, c, 4, 5, 1, 2);
#endif
#if SEL(2, 3)
			addUnit<DispTarget<PolFunction<VThreading> > >("C02/dispatcher/vmutex", 0, cd, 4, 5, 1, 2);
			addUnit<DispTarget<PolFunction<ST> > >("C02/dispatcher/single/B2", 1, cd, 4, 4, 2, 2);
#endif
		}
		// ---- C08 (list part): ledger clauses only
		{ Cfg c; c.K = 3; c.nested = true; c.ledgerOnly = true;
			Cfg cd = c; cd.nLists = 2; (void)cd;
			Cfg cc = c; cc.comparable = true; (void)cc;
#if SEL(8, 0)
			addUnit<ListTarget<PolFunction<ST> > >("C08/list/single", 0, c, 4, 6, 2, 2);
#endif
#if SEL(8, 1)
			addUnit<DispTarget<PolFunction<ST> > >("C08/dispatcher/single", 0, cd, 4, 5, 1, 2);
			addUnit<ListTarget<PolComparable<ST> > >("C08/list/single/comparable", 1, cc, 4, 5, 2, 2);
#endif
		}
		// ---- C19: the wrap placed everywhere
#if SEL(19, 0)
		for(int p = 0; p <= 6; ++p) {
			Cfg c; c.K = 3; c.nested = true; c.counterPreset = p;
			addUnit<ListTarget<PolFunction<ST> > >(fmt("C19/list/single/preset%d", p), 0, c, std::min(p + 4, 9), 11, 1, 2);
		}
#endif
#if SEL(20, 0)
		{ Cfg c; c.K = 3;
			addUnit<ListTarget<PolFunction<ST> > >("C20/list-flat-function/single", 0, c, 5, 6, 0, 0);
			addUnit<ListTarget<PolFunction<VThreading> > >("C20/list-flat-function/vthreading", 0, c, 5, 6, 0, 0);
			addUnit<ListTarget<PolFunction<SpinT> > >("C20/list-flat-function/spinlock", 0, c, 5, 6, 0, 0);
			addUnit<ListTarget<PolFunction<MT> > >("C20/list-flat-function/stdmutex", 0, c, 5, 6, 0, 0);
			Cfg cc = c; cc.comparable = true;
			addUnit<ListTarget<PolComparable<ST> > >("C20/list-flat-comparable/single", 0, cc, 4, 5, 0, 0);
			addUnit<ListTarget<PolComparable<MT> > >("C20/list-flat-comparable/stdmutex", 0, cc, 4, 5, 0, 0);
			// the same flat programs with the generation counter one step before its wrap: the wrap must behave alike under every policy
			Cfg cw = c; cw.counterPreset = 1;
			addUnit<ListTarget<PolFunction<ST> > >("C20/list-wrap-function/single", 0, cw, 4, 5, 0, 0);
			addUnit<ListTarget<PolFunction<VThreading> > >("C20/list-wrap-function/vthreading", 0, cw, 4, 5, 0, 0);
			addUnit<ListTarget<PolFunction<SpinT> > >("C20/list-wrap-function/spinlock", 0, cw, 4, 5, 0, 0);
			addUnit<ListTarget<PolFunction<MT> > >("C20/list-wrap-function/stdmutex", 0, cw, 4, 5, 0, 0);
			Cfg cn = c; cn.nested = true;
			addUnit<ListTarget<PolFunction<ST> > >("C20/list-nested-function/single", 0, cn, 3, 4, 1, 1);
			addUnit<ListTarget<PolFunction<MT> > >("C20/list-nested-function/stdmutex", 0, cn, 3, 4, 1, 1);
			addUnit<ListTarget<PolFunction<SpinT> > >("C20/list-nested-function/spinlock", 0, cn, 3, 4, 1, 1);
		}
#endif
#if SEL(20, 1)
		{ Cfg cd; cd.K = 3; cd.nLists = 2;
			addUnit<DispTarget<PolFunction<ST> > >("C20/dispatcher-flat/single-unordered_map", 0, cd, 4, 5, 0, 0);
			addUnit<DispTarget<PolOrderedMap<MT> > >("C20/dispatcher-flat/stdmutex-map", 0, cd, 4, 5, 0, 0);
			addUnit<DispTarget<PolUserMap<SpinT> > >("C20/dispatcher-flat/spinlock-usermap", 0, cd, 4, 5, 0, 0);
			addUnit<DispTarget<PolOrderedMap<VThreading> > >("C20/dispatcher-flat/vthreading-map", 0, cd, 4, 5, 0, 0);
		}
#endif
#if SEL(19, 1)
		for(int p = 0; p <= 6; p += 2) {
			Cfg c; c.K = 3; c.nested = true; c.counterPreset = p;
			// with a real (non-recursive) mutex: an operation that allocates a node while holding the list mutex locks it again
			// when that allocation is the one that wraps the counter - under SingleThreading the same program completes
			addUnit<ListTarget<PolFunction<VThreading> > >(fmt("C19/list/vmutex/preset%d", p), p <= 2 ? 0 : 1, c, 4, 10, 1, 2);
		}
#endif
	}
} reg;

VERIF_MAIN("list")
